"""Running a TLA+ generator spec (spec/Gen*.tla) and collecting its CASE records."""
import re
import shutil
from pathlib import Path

from . import common as C


def run_generator(module, workdir, constants=None, simulate=None, depth=None, seed=None, workers=8, timeout=1800, heap_mb=8000, cfg=None, env=None):
    """constants: dict name -> TLA+ text replacing the value in spec/<module>.cfg (`CONSTANT N = v`)."""
    d = Path(workdir)
    d.mkdir(parents=True, exist_ok=True)
    for f in C.SPEC.glob("*.tla"):
        shutil.copy(f, d / f.name)
    cfg = (C.SPEC / f"{cfg or module}.cfg").read_text()
    for k, v in (constants or {}).items():
        cfg, n = re.subn(rf"(?m)(\b{k}\s*(=|<-)\s*).*$", lambda m: m.group(1) + str(v), cfg)
        if n == 0:
            raise C.ToolError(f"constant {k} not in {module}.cfg")
    (d / f"{module}_run.cfg").write_text(cfg)
    g = C.tlc(module, f"{module}_run", d, workers=(1 if simulate else workers), timeout=timeout, copy_specs=False,
              heap_mb=heap_mb, simulate=simulate, depth=depth, seed=seed, env=env)
    if g.error or g.invariant_violated:
        raise C.ToolError(f"{module}: {g.error or g.invariant_violated}")
    return g.prints.get("CASE", []), g


def dedupe(cases, key):
    seen, out = set(), []
    for c in cases:
        k = key(c)
        if k in seen:
            continue
        seen.add(k)
        out.append(c)
    return out


def expand(module, workdir, selected, cfg, workers=8, timeout=1800):
    """second phase of a light enumeration: turn selected records into full CASEs (with prog)."""
    d = Path(workdir)
    d.mkdir(parents=True, exist_ok=True)
    C.write_ndjson(d / "select.ndjson", selected)
    cases, g = run_generator(module, d, cfg=cfg, env=dict(SELECT=str(d / "select.ndjson")), workers=workers, timeout=timeout)
    if len(cases) != len(selected):
        raise C.ToolError(f"{module} expanded {len(cases)} of {len(selected)} selected cases")
    return cases, g
