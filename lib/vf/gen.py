"""Running a TLA+ generator spec (spec/Gen*.tla) and collecting its CASE records."""
import re
import shutil
from pathlib import Path

from . import common as C


def run_generator(module, workdir, constants=None, simulate=None, depth=None, seed=None, workers=8, timeout=1800, heap_mb=8000):
    """constants: dict name -> TLA+ text replacing the value in spec/<module>.cfg (`CONSTANT N = v`)."""
    d = Path(workdir)
    d.mkdir(parents=True, exist_ok=True)
    for f in C.SPEC.glob("*.tla"):
        shutil.copy(f, d / f.name)
    cfg = (C.SPEC / f"{module}.cfg").read_text()
    for k, v in (constants or {}).items():
        cfg, n = re.subn(rf"(\b{k}\s*(=|<-)\s*)\S+", rf"\g<1>{v}", cfg)
        if n == 0:
            raise C.ToolError(f"constant {k} not in {module}.cfg")
    (d / f"{module}_run.cfg").write_text(cfg)
    g = C.tlc(module, f"{module}_run", d, workers=(1 if simulate else workers), timeout=timeout, copy_specs=False,
              heap_mb=heap_mb, simulate=simulate, depth=depth, seed=seed)
    if g.error or g.invariant_violated:
        raise C.ToolError(f"{module}: {g.error or g.invariant_violated}")
    return g.prints.get("CASE", []), g


def dedupe(cases, key):
    seen, out = set(), []
    for c in cases:
        k = key(c)
        if k in seen:
            continue
        seen.add(k)
        out.append(c)
    return out
