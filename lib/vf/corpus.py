"""Getting bytecode dumps (hook H4) and execution traces (hook H1) out of the real binary."""
import json
import os
import shutil
import uuid
from pathlib import Path

from . import common as C


def copy_examples(dst):
    dst = Path(dst)
    if dst.exists():
        shutil.rmtree(dst)
    shutil.copytree(C.REPO / "examples", dst, ignore=shutil.ignore_patterns("*.mmm", "*.py"))
    return sorted(p for p in dst.rglob("*.ms"))


def read_ndjson(path):
    out = []
    p = Path(path)
    if not p.exists():
        return out
    with open(p, encoding="utf-8", errors="replace") as f:
        for line in f:
            line = line.strip()
            if line:
                try:
                    out.append(json.loads(line))
                except json.JSONDecodeError:
                    pass
    return out


def compile_only(binary, src, timeout=20):
    """`mscript compile src --quick` ; returns (ok, result dict)."""
    src = Path(src)
    r = C.run_proc([binary, "compile", src.name, "--quick"], cwd=src.parent, timeout=timeout)
    ok = r["exit"] == 0 and not r["timeout"]
    return ok, r


def dump_disk(binary, mmm, timeout=20):
    """Load a .mmm file with the interpreter's own reader without running it; return its functions."""
    mmm = Path(mmm)
    d = mmm.with_suffix(f".{uuid.uuid4().hex[:8]}.dump.ndjson")
    if d.exists():
        d.unlink()
    r = C.run_proc([binary, "execute", mmm.name], cwd=mmm.parent, timeout=timeout,
                   env=dict(MSCRIPT_VERIF_DUMP=str(d), MSCRIPT_VERIF_NOEXEC="1"))
    funcs = read_ndjson(d)
    if d.exists():
        d.unlink()
    return funcs, r


def dump_memory(binary, src, timeout=20):
    """`mscript run` stopped before execution: the in-memory entry module (origin memory)."""
    src = Path(src)
    d = src.with_suffix(f".{uuid.uuid4().hex[:8]}.mdump.ndjson")
    if d.exists():
        d.unlink()
    r = C.run_proc([binary, "run", src.name, "-q"], cwd=src.parent, timeout=timeout,
                   env=dict(MSCRIPT_VERIF_DUMP=str(d), MSCRIPT_VERIF_NOEXEC="1"))
    funcs = read_ndjson(d)
    if d.exists():
        d.unlink()
    return funcs, r


def compile_and_dump(binary, src):
    """Compile src (and its imports) to .mmm and dump every produced file through the loader."""
    src = Path(src)
    before = {p for p in src.parent.rglob("*.mmm")}
    ok, r = compile_only(binary, src)
    if not ok:
        return None, r
    funcs = []
    main = src.with_suffix(".mmm")
    produced = sorted({p for p in src.parent.rglob("*.mmm")} - before | ({main} if main.exists() else set()))
    for m in produced:
        f, rr = dump_disk(binary, m)
        funcs.extend(f)
    return funcs, r


def run_traced(binary, src, mode="run", timeout=10, ins=True, max_events=30000, stdin=None, top=False):
    """Run a program with the trace hook on. Returns (result, events, partial)."""
    src = Path(src)
    u = uuid.uuid4().hex[:8]
    tr = src.with_suffix(f".{mode}.{u}.trace.ndjson")
    du = src.with_suffix(f".{mode}.{u}.rdump.ndjson")
    for f in (tr, du):
        if f.exists():
            f.unlink()
    env = dict(MSCRIPT_VERIF_TRACE=str(tr), MSCRIPT_VERIF_DUMP=str(du))
    if not ins:
        env["MSCRIPT_VERIF_TRACE_INS"] = "0"
    if top:
        env["MSCRIPT_VERIF_TRACE_TOP"] = "1"
    if mode == "run":
        argv = [binary, "run", src.name, "-q"]
    else:
        argv = [binary, "execute", src.with_suffix(".mmm").name]
    r = C.run_proc(argv, cwd=src.parent, timeout=timeout, env=env, stdin=stdin)
    partial = r["timeout"] or r["sig"] != 0 or r["exit"] in (101, 134)
    events = []
    if tr.exists():
        size = tr.stat().st_size
        with open(tr, encoding="utf-8", errors="replace") as f:
            for line in f:
                if len(events) >= max_events:
                    partial = True
                    break
                line = line.strip()
                if not line:
                    continue
                try:
                    events.append(json.loads(line))
                except json.JSONDecodeError:
                    partial = True
                    break
        tr.unlink()
    funcs = read_ndjson(du)
    if du.exists():
        du.unlink()
    return r, events, funcs, partial


def by_directory(items, key=lambda p: Path(p).parent):
    """Group sources so that programs sharing a directory (and .mmm outputs) run sequentially."""
    groups = {}
    for it in items:
        groups.setdefault(str(key(it)), []).append(it)
    return list(groups.values())
