"""C08 objects have per-instance state, reference identity and bound methods.

GenObj.tla enumerates histories of constructions / method calls / field accesses / aliasings;
MSLang.tla's object model (objects = identity + field cells) prescribes what every variable
shows after every operation; the real binary runs the rendering; CheckLang.tla decides.
"""
import json
import random

from .. import common as C
from .. import vmv
from .. import gen, l1

PID = "C08"


def op_id(o):
    return o["op"] + "(" + ",".join(o[k] for k in ("v", "w") if k in o) + ")"


def run(tier, replay=None):
    rep = C.Report(PID, tier, "exploration")
    binary = C.build()
    work = C.fresh_dir(C.WORK / PID)
    rnd = random.Random(rep.seed)
    key = lambda c: json.dumps(c["hist"], sort_keys=True)
    allc, g2 = gen.run_generator("GenObj", work / "gen2", dict(MaxLen=2), cfg="GenObjLight", timeout=1500)
    sim, g3 = gen.run_generator("GenObj", work / "sim", dict(MaxLen=(8 if tier == "quick" else 15)), cfg="GenObjLight",
                                simulate=(2500 if tier == "quick" else 30000), depth=16, seed=rep.seed, timeout=(60 if tier == "quick" else 600))
    allc = gen.dedupe(allc, key)
    one = [c for c in allc if len(c["hist"]) == 1]
    two = [c for c in allc if len(c["hist"]) == 2]
    sim = [c for c in gen.dedupe(sim, key) if len(c["hist"]) >= 3]
    n2 = len(two)
    b2, b3 = (2500, 1200) if tier == "quick" else (12000, 8000)
    if len(two) > b2:
        two = rnd.sample(two, b2)
    if len(sim) > b3:
        sim = rnd.sample(sim, b3)
    cases, g1 = gen.expand("GenObj", work / "expand", gen.dedupe(one + two + sim, key), "GenObjSel")
    for c in cases:
        c["id"] = " ; ".join(op_id(o) for o in c["hist"])
    C.log(f"[{PID}] {len(one)} single ops (all), {len(two)} of {n2} pairs, {len(sim)} simulated longer histories")
    dis, skips, st = l1.run_cases(binary, work, cases)
    # the compiled code on the value machine MSVMV: per-instruction trace validation of the interpreter and
    # translation validation of the compiler against MSLang (programs outside the machine's fragment are counted)
    import random as _random
    vres = vmv.stage(binary, work / "vmv", cases, 400 if tier == "quick" else 4000, _random.Random(rep.seed))
    vcov = vmv.report(rep, vres, "object history")
    byid = {c["id"]: c for c in cases}
    for c in cases:
        if c["rejected"]:
            rep.violation(f"compiler-rejects {c['id']}", f"object program rejected: {c['obs'][0]['diag'][-600:]}",
                          dict(case=c["id"], files={"main.ms": c["src"]}))
    for d in dis:
        c = byid[d["id"]]
        exp, got = d["exp_out"], d["obs_out"]
        k = next((i for i in range(min(len(exp), len(got))) if exp[i] != got[i]), min(len(exp), len(got)))
        rep.violation(f"{d['path']} [{d['id']}]",
                      f"{d['path']}: history [{d['id']}]: model prescribes status={d['exp_status']} lines {exp[max(0,k-2):k+3]} at line {k}; real binary {got[max(0,k-2):k+3]} exit={d['obs_exit']} {d['obs_fclass']}",
                      dict(case=c["id"], verdict=d, files={"main.ms": c["src"]}, stderr=[o["err"] for o in c["obs"]]))
    rep.coverage = dict(**vcov, traces_validated_against_impl=vres["recorded"],
        evaluations=len(cases), distinct_nontrivial=sum(1 for c in cases if len(c["hist"]) >= 2),
        rule="GenObj.tla: histories over 60 operations (incl. a linked structure whose links are cut by writing nil, `is` between objects of different classes, a class whose constructor parameters and locals are named like its fields and used crosswise) (construct, methods incl. methods calling methods / returning Self / a new instance / taking another instance, field read/write/op=, list-typed field, aliasing by assignment / return / field / list element, `is`) on 3 variables + a Pair with class-typed and optional fields + a list of objects; all single operations, all/sampled pairs, seeded -simulate histories up to 8/15; everything observed after every operation; non-trivial = at least two operations",
        samples=[dict(id=c["id"], out=c["obs"][0]["out"][-6:]) for c in cases[:: max(1, len(cases) // 3)][:3]],
        states=st["states"] + vres["states"] + g2.distinct, transitions=st["transitions"] + vres["transitions"] + g2.generated,
        out_of_model=len(skips), rejected_by_compiler=sum(1 for c in cases if c["rejected"]), executions=2 * len(cases),
    )
    rep.assumptions = ["MSLang object model: object = identity + one cell per declared field; methods see the class's defining scope"]
    return rep.finish()
