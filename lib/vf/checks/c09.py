"""C09 compiled code is structurally well-formed on every control-flow path.

spec/MSVM.tla is the bytecode machine in shape mode; spec/ExploreVM.tla explores every dumped
function over all branch outcomes and evaluates the structural checks in every reachable
state; spec/TraceVM.tla validates per-instruction traces of the real interpreter against the
same successor relation (binding the model to Function::run).
"""
import collections
import json
from pathlib import Path

from .. import common as C
from .. import corpus
from .. import progpool
from .. import vmv

PID = "C09"


def explore(work, funcs, workers=12, timeout=1500, rets=False):
    work = Path(work)
    C.write_ndjson(work / "dump.ndjson", funcs)
    r = C.tlc("ExploreVM", "ExploreVM", work / "explore", env=dict(DUMP=str(work / "dump.ndjson"), RETS="1" if rets else "0"),
              workers=workers, timeout=timeout, heap_mb=8000)
    if r.error or r.invariant_violated:
        raise C.ToolError(f"ExploreVM: {r.error or r.invariant_violated}")
    return r


def explore_two_pass(work, funcs, timeout=3000):
    """Pass 1 explores every function and records how each activation can end (RET records printed by TLC);
    the records are copied into the dump (field `rets`, data only) and pass 2 explores again: MSVM then
    judges ReturnArityUniform per function and gives `call_self` the function's own result count."""
    r1 = explore(C.fresh_dir(Path(work) / "p1"), funcs, timeout=timeout, rets=True)
    per = collections.defaultdict(set)
    for x in r1.prints.get("RET", []):
        per[x["fi"]].add((x["lo"], x["hi"]))
    withrets = [dict(f, rets=[dict(lo=a, hi=b) for a, b in sorted(per.get(k + 1, ()))]) for k, f in enumerate(funcs)]
    r2 = explore(C.fresh_dir(Path(work) / "p2"), withrets, timeout=timeout)
    # a BAD state of pass 1 stops that path in both passes; pass 2 re-reports it (same relation, sharper call_self)
    return r1, r2, per


def validate_traces(work, traces, funcs, workers=8, timeout=1500):
    C.write_ndjson(work / "tdump.ndjson", funcs)
    C.write_ndjson(work / "traces.ndjson", traces)
    r = C.tlc("TraceVM", "TraceVM", work / "trace", env=dict(DUMP=str(work / "tdump.ndjson"), TRACES=str(work / "traces.ndjson")),
              workers=workers, timeout=timeout, heap_mb=10000)
    if r.error or r.invariant_violated:
        raise C.ToolError(f"TraceVM: {r.error or r.invariant_violated}")
    return r


def collect_traces(binary, sources, limit_events, timeout=6):
    """Run each source with the H1 hook; returns (traces, funcs) ready for TraceVM."""
    def group(srcs):
        out = []
        for src in srcs:
            r, events, funcs, partial = corpus.run_traced(binary, src, "run", timeout=timeout, max_events=limit_events)
            out.append((src, r, events, funcs, partial))
        return out
    res = [x for g in C.pmap(group, corpus.by_directory(sources)) for x in g]
    traces, allfuncs = [], []
    for src, r, events, funcs, partial in res:
        if not events or not funcs:
            continue
        base = len(allfuncs)
        index = {}
        for k, f in enumerate(funcs):
            index[f["file"] + "#" + f["name"]] = base + k + 1
        allfuncs.extend(funcs)
        evs = []
        ok = True
        for e in events:
            if e.get("e") in ("enter", "i"):
                fi = index.get(e["fn"])
                if fi is None:
                    ok = False
                    break
                e = dict(e, fi=fi)
            elif e.get("e") not in ("fd", "leave"):
                e = dict(e=e.get("e", "?"))
            evs.append(e)
        if not ok:
            raise C.ToolError(f"trace of {src} names a function that is not in its dump")
        traces.append(dict(id=str(src), events=evs, partial=bool(partial)))
    return traces, allfuncs


def run(tier, replay=None):
    rep = C.Report(PID, tier, "model_checking")
    binary = C.build()
    work = C.fresh_dir(C.WORK / PID)
    # ---- programs: example corpus + generated programs of the other properties
    sources = corpus.copy_examples(work / "examples")
    gen = progpool.programs(binary, work / "gen", tier, rep.seed)     # list of source paths
    feat = progpool.features(binary, work / "feat", tier, rep.seed)   # closures, names, objects, lists / maps, evaluation order
    flt = progpool.faults(work / "faults")                              # fault catalogue: ill-typed programs + twins
    allsrc = list(sources) + list(gen) + list(feat) + list(flt)

    def dump_group(group):
        out = []
        for src in group:
            funcs, r = corpus.compile_and_dump(binary, src)
            out.append((src, funcs, r))
        return out
    dumps = [x for g in C.pmap(dump_group, corpus.by_directory(allsrc)) for x in g]
    funcs, per_src, not_compiled = [], {}, 0
    seen = set()
    for src, fs, r in dumps:
        if fs is None:
            not_compiled += 1
            continue
        for f in fs:
            h = C.short_hash([f["name"], f["code"]])
            if h in seen:
                continue
            seen.add(h)
            f = dict(f, src=str(Path(src).relative_to(work)))
            funcs.append(f)
    if len(funcs) < 50:
        raise C.ToolError(f"only {len(funcs)} functions dumped")
    C.log(f"[{PID}] {len(allsrc)} programs ({not_compiled} rejected by the compiler), {len(funcs)} distinct functions")
    # all-paths exploration, in chunks (one TLC run per 12 000 functions keeps each run short and its memory bounded)
    class _Acc:
        distinct = 0
        generated = 0
    ex = _Acc()
    bad = []
    CH = 12000
    arity = collections.Counter()
    for k in range(0, len(funcs), CH):
        part = funcs[k:k + CH]
        r1, r, per = explore_two_pass(C.fresh_dir(work / f"explore{k}"), part, timeout=3000)
        ex.distinct += r.distinct + r1.distinct
        ex.generated += r.generated + r1.generated
        seenb = set()
        for b in r.prints.get("BAD", []) + r1.prints.get("BAD", []):
            kb = (b["fi"], b["ip"], tuple(b["checks"]), json.dumps(b["state"], sort_keys=True))
            if kb not in seenb:
                seenb.add(kb)
                bad.append(dict(b, fi=b["fi"] + k))
        for j in range(len(part)):
            e = per.get(j + 1, set())
            c0, c1 = any(h == 0 for _, h in e), any(l >= 1 for l, _ in e)
            arity["value" if c1 and not c0 else "no value" if c0 and not c1 else "mixed" if c0 and c1 else "never ends / only through calls"] += 1
    for b in bad:
        f = funcs[b["fi"] - 1]
        ins = f["code"][b["ip"]] if b["ip"] < len(f["code"]) else None
        for chk in b["checks"]:
            key = f"{chk} {f['src']} {f['name']} ip={b['ip']}"
            rep.violation(key, f"{chk} at instruction #{b['ip']} ({ins}) of {f['name']} in {f['src']}; abstract state {b['state']}",
                          dict(function=f, state=b["state"], check=chk, how="bin/check C09 explores spec/ExploreVM.tla on this function's dump"))
    # ---- binding: traces of the real interpreter against the same machine
    runnable = [s for s, fs, r in dumps if fs is not None]
    ntr = 120 if tier == "quick" else 1500
    chosen = runnable[:len(sources)] + runnable[len(sources):][: max(0, ntr - len(sources))]
    traces, tfuncs = collect_traces(binary, chosen, 4000 if tier == "quick" else 20000)
    tv = validate_traces(work, traces, tfuncs)
    accepted = {a["id"] for a in tv.prints.get("ACCEPT", [])}
    stuck = collections.defaultdict(list)
    for s in tv.prints.get("STUCK", []):
        stuck[s["id"]].append(s)
    nrej = 0
    for tr in traces:
        if tr["id"] not in accepted:
            nrej += 1
            far = max(stuck.get(tr["id"], [dict(l=0)]), key=lambda s: s["l"])
            ev = tr["events"][far["l"] - 1] if 0 < far["l"] <= len(tr["events"]) else None
            rel = str(Path(tr["id"]).relative_to(work))
            key = f"trace-rejected {rel} viol={far.get('viol')}"
            rep.violation(key, f"real execution of {rel} is not a behaviour of MSVM: first unmatched event #{far['l']} {ev}; model state {far.get('top')} violated={far.get('viol')}",
                          dict(source=rel, event_index=far["l"], event=ev, model=far, files={Path(rel).name: Path(tr["id"]).read_text()}))
    # ---- the example corpus on the value machine: every instruction event (incl. the value on top of the operand
    # stack) and every print must be what MSVMV does with the dumped code
    def vm_group(group):
        out = []
        for src in group:
            out.append((src,) + vmv.record(binary, src, max_events=8000 if tier == "quick" else 40000))
        return out
    vrec = [x for g in C.pmap(vm_group, corpus.by_directory(list(sources))) for x in g]
    vcases = [c for _, c, _ in vrec if c is not None]
    vres = vmv.validate(work / "vmv", vcases) if vcases else dict(accepted=set(), oom={}, stuck={}, xlate={}, tlc=None)
    for cid, st_ in vres["stuck"].items():
        rel = str(Path(cid).relative_to(work))
        rep.violation(f"vm-trace-rejected {rel}", f"real execution of {rel} is not a behaviour of the value machine MSVMV: event #{st_['l']} {st_['event']}; machine at {st_['top']} frames={st_['fd']} activations={st_['ad']} status={st_['st']} {st_['why']}",
                      dict(source=rel, verdict=st_, files={Path(rel).name: Path(cid).read_text()}))
    ops = collections.Counter(i["op"] for f in funcs for i in f["code"])
    deep_pops = sum(1 for f in funcs for i in f["code"] if i["op"] == "jmp_pop" and len(i["args"]) > 1 and i["args"][1].isdigit() and int(i["args"][1]) >= 2)
    rep.coverage = dict(
        states=ex.distinct + tv.distinct, transitions=ex.generated + tv.generated,
        traces_validated_against_impl=len(traces) + len(vcases), traces_accepted=len(traces) - nrej,
        vm_value_traces=len(vcases), vm_value_traces_accepted=len(vres["accepted"]), vm_value_out_of_model=len(vres["oom"]),
        vm_value_out_of_model_reasons=sorted({o["why"] for o in vres["oom"].values()})[:12], vm_value_not_recorded=sum(1 for _, c, _ in vrec if c is None),
        functions_explored=len(funcs), return_arity_summaries=dict(arity), call_self_sites=ops.get("call_self", 0), programs=len(allsrc), programs_rejected_by_compiler=not_compiled,
        trace_events=sum(len(t["events"]) for t in traces),
        opcode_histogram=dict(ops.most_common()), jmp_pop_with_2_or_more_frames=deep_pops,
        evaluations=len(funcs), distinct_nontrivial=sum(1 for f in funcs if any(i["op"] in ("if_stmt", "while_loop", "jmp_pop", "jmp_not_nil", "store_skip") for i in f["code"])),
        rule="every distinct function (name+code) dumped by the loader for the example corpus, the control-flow pool (GenCtl), the feature pools (GenCapture, GenNames, GenObj, GenHeap, GenOrder) and the fault catalogue (GenFault: ill-typed programs the compiler accepts are explored like any other, and their well-typed twins); two passes: the second knows how every function can end (ReturnArityUniform, result count of call_self); non-trivial = contains a branching instruction; each explored over all branch outcomes by TLC",
        samples=[dict(src=f["src"], name=f["name"], code=[[i["op"]] + i["args"] for i in f["code"][:12]]) for f in funcs[:: max(1, len(funcs) // 3)][:3]],
        exhaustive=False,
    )
    rep.assumptions = ["operand depth is tracked as an interval; a call with unknown callee widens it (weakens OperandShape, never alarms)",
                       "dump = what the interpreter's own loader read from the compiled .mmm files (hook H4)",
                       "trace validation covers the branches actually executed; all-paths exploration covers the rest on the model bound by those traces"]
    return rep.finish()
