"""C03 ill-typed programs are rejected with a diagnostic before anything runs.

GenFault.tla (over MSTypes.tla) enumerates (site, fault, context) triples: only definite faults
(MSTypes!Assignable = MustNot, unsupported operator categories, and a fixed catalogue of
non-type faults: unknown names/fields/methods, arity, return values, conditions, ...); each
with its well-typed twin.  CheckFault.tla judges: rejected at compile time, a diagnostic at the
faulted file:line, nothing executed; twin compiles and runs.
"""
import re
import threading

from .. import classify, common as C
from .. import gen

PID = "C03"


def observe(binary, root, files):
    d = root / f"slot{threading.get_ident()}"
    d.mkdir(exist_ok=True)
    for f in d.iterdir():
        f.unlink()
    for n, lines in files.items():
        if lines:
            (d / f"{n}.ms").write_text("\n".join(lines) + "\n")
    r = C.run_proc([binary, "run", "main.ms", "-q"], cwd=d, timeout=10)
    err = C.strip_ansi(r["err"])
    out = C.strip_ansi(r["out"])
    diags = [dict(file=m.group(1).rsplit("/", 1)[-1], line=int(m.group(2)), col=int(m.group(3))) for m in re.finditer(r"--> ([\w./-]+)\.ms:(\d+):(\d+)", out)]
    return dict(exit=r["exit"] if not r["timeout"] else 124, compile_error="Did not compile" in err, started=any(l == "START" for l in out.splitlines()),
                diags=diags, out=classify.out_lines(r["out"]), err=err[-300:], text=out[-700:])


def run(tier, replay=None):
    rep = C.Report(PID, tier, "fault_enumeration")
    binary = C.build()
    work = C.fresh_dir(C.WORK / PID)
    cases, g = gen.run_generator("GenFault", work / "gen")
    cases.sort(key=lambda c: c["id"])
    root = C.fresh_dir(work / "slots")

    def one(c):
        c["bad_obs"] = observe(binary, root, c["bad"])
        c["good_obs"] = observe(binary, root, c["good"])
        lines = c["bad"][c["fault_file"]]
        hits = [k + 1 for k, l in enumerate(lines) if l.endswith("# flt")]
        c["fault_line"] = hits[-1] if hits else 0
        return c
    C.pmap(one, cases)
    f = work / "cases.ndjson"
    slim = lambda o: dict(exit=o["exit"], compile_error=o["compile_error"], started=o["started"], diags=o["diags"], out=o["out"])
    C.write_ndjson(f, [dict(id=c["id"], fault_file=c["fault_file"], fault_line=c["fault_line"], bad=slim(c["bad_obs"]), good=slim(c["good_obs"])) for c in cases])
    r = C.tlc("CheckFault", "CheckFault", work / "judge", env=dict(CASES=str(f)), workers=8, timeout=1800)
    if r.error or r.invariant_violated:
        raise C.ToolError(f"CheckFault: {r.error or r.invariant_violated}")
    if r.distinct != len(cases):
        raise C.ToolError(f"CheckFault judged {r.distinct} of {len(cases)}")
    byid = {c["id"]: c for c in cases}
    src = lambda files: {f"{n}.ms": "\n".join(ls) + "\n" for n, ls in files.items() if ls}
    for tag, what in (("ACCEPTED", "ill-typed program was not rejected at compile time"), ("POSITION", "no diagnostic names the faulted file and line"), ("TWIN", "the well-typed twin does not compile and run")):
        for d in r.prints.get(tag, []):
            c = byid[d["id"]]
            o = c["good_obs"] if tag == "TWIN" else c["bad_obs"]
            rep.violation(f"{tag.lower()} {d['id']}", f"{d['id']}: {what}: exit={o['exit']} compile_error={o['compile_error']} ran={o['started']} diagnostics={o['diags']} (fault at {c['fault_file']}:{c['fault_line']}) out={o['out'][:4]} {o['text'][-160:]!r}",
                          dict(case=c["id"], observed=o, fault=dict(file=c["fault_file"], line=c["fault_line"]), files=src(c["good"] if tag == "TWIN" else c["bad"])))
    kinds = {}
    for c in cases:
        kinds[c["kind"] + "@" + c["ctx"]] = kinds.get(c["kind"] + "@" + c["ctx"], 0) + 1
    rep.coverage = dict(
        evaluations=len(cases), distinct_nontrivial=len(cases), per_kind_context=kinds, exhaustive=True,
        rule="GenFault.tla: 10 typed sites x MustNot (expected, supplied) pairs over 9 types x 5 contexts (module, function, method, else-if arm, imported module), 24 fixed faults x 5 contexts, unsupported operator/operand categories x 2 contexts; every case with its well-typed twin",
        states=r.distinct + g.distinct, transitions=r.generated + g.generated,
        samples=[dict(id=c["id"], fault="\n".join(l for l in c["bad"][c["fault_file"]] if l.endswith("# flt")), diagnostics=c["bad_obs"]["diags"][:2]) for c in cases[:: max(1, len(cases) // 3)][:3]],
    )
    rep.assumptions = ["only definite faults are used (MSTypes!Assignable = MustNot); numeric widening and fixed-vs-open list pairs are unspecified and never used",
                       "a diagnostic is 'at' the fault when its file is the faulted module and its line is the line of the edited statement"]
    return rep.finish()
