"""C16 the compiler is total: any input yields success or diagnostics, never a crash.

MSGrammar.tla supplies the input space: (1) derivations of a transcription of grammar.pest
(leftmost expansion with a depth budget; -simulate), (2) token edits (delete / duplicate /
swap / replace / insert) of the tokenised example corpus (BFS = every single edit of a corpus
sample; -simulate = multi-edit).  The oracle is a post-condition on the real `compile`:
finishes within the time limit with exit status 0 or 1.  Known panic sites of the pinned tree
are listed in known_findings.json by site; any other site is a violation.
"""
import hashlib
import random
import re
import threading
from pathlib import Path

from .. import common as C
from .. import corpus, gen

PID = "C16"
TOKEN = re.compile(r'"(?:\\.|[^"\\])*"|###|#[^\n]*|[A-Za-z_][A-Za-z_0-9]*|0x[0-9a-fA-F_]+|0b[01_]+|B?[0-9][0-9_]*(?:\.[0-9]+)?[fF]?|\.\.\.|->|\?=|==|!=|<=|>=|<<|>>|&&|\|\||\+=|-=|\*=|/=|%=|[^\sA-Za-z_0-9]')
NEED_SPACE = {"print", "return", "get", "or", "is", "xor", "typeof", "import", "from", "to", "through", "step", "const", "export", "modify",
              "class", "type", "if", "else", "while", "fn", "assert", "constructor", "map"}


def tokenize(text):
    toks = []
    for m in TOKEN.finditer(text):
        t = m.group(0)
        if t.startswith("#"):
            continue
        toks.append(t + " " if t in NEED_SPACE else t)
    return toks


def join(toks):
    out = []
    for t in toks:
        out.append(t if t.endswith(" ") else t + " ")
    return "".join(out) + "\n"


LIB = "print \"lib\"\nexport val: int = 1\nexport type T int\n"


def observe(binary, root, text, lib=False):
    d = root / f"slot{threading.get_ident()}"
    d.mkdir(exist_ok=True)
    for f in d.glob("*.mmm"):
        f.unlink()
    (d / "main.ms").write_text(text)
    if lib:
        (d / "lib.ms").write_text(LIB)
    elif (d / "lib.ms").exists():
        (d / "lib.ms").unlink()
    r = C.run_proc([binary, "compile", "main.ms", "--quick"], cwd=d, timeout=10, mem_mb=4096)
    err = C.strip_ansi(r["err"])
    site = ""
    if r["timeout"]:
        cls = "hang"
    elif r["sig"] or r["exit"] == 134:
        cls = "abort:" + ("stack overflow" if "overflowed its stack" in err else f"signal {r['sig']}")
    elif r["exit"] == 101 or "panicked at" in err:
        m = re.search(r"panicked at ([^\n:]+):(\d+):\d+:\n([^\n]*)", err)
        site = (m.group(1) if m else "?")
        msg = re.sub(r"[0-9]+", "N", (m.group(3) if m else ""))[:80]
        cls = f"panic@{site} {msg}"
    elif r["exit"] in (0, 1):
        cls = "ok"
    else:
        cls = f"exit {r['exit']}"
    return dict(cls=cls, exit=r["exit"], err=err[-500:], wall=r["wall"])


def run(tier, replay=None):
    rep = C.Report(PID, tier, "exploration")
    binary = C.build()
    work = C.fresh_dir(C.WORK / PID)
    # the quick tier is a fixed input set (no random choices); only the thorough tier samples with VERIF_SEED
    seed = 1 if tier == "quick" else rep.seed
    rnd = random.Random(seed)
    srcs = corpus.copy_examples(work / "examples")
    sample = [s for s in srcs if s.stat().st_size < 1500]
    sample = sorted(sample, key=lambda p: str(p))[:: (3 if tier == "quick" else 1)]
    C.write_ndjson(work / "tokens.ndjson", [dict(id=str(s.relative_to(work)), toks=tokenize(s.read_text(errors="replace"))) for s in sample])
    env = dict(TOKENS=str(work / "tokens.ndjson"))
    # (2) every single edit that deletes / duplicates / swaps, and sampled replacements/insertions
    ed1, g1 = gen.run_generator("MSGrammar", work / "edit1", dict(MaxEdits=1), cfg="MSGrammarE", env=env, timeout=2400, heap_mb=12000)
    ed2, g2 = gen.run_generator("MSGrammar", work / "edit2", dict(MaxEdits=3), cfg="MSGrammarS", env=env, simulate=(1500 if tier == "quick" else 30000),
                                depth=4, seed=seed, timeout=(60 if tier == "quick" else 600))
    # (1) grammar derivations
    der, g3 = gen.run_generator("MSGrammar", work / "derive", dict(Budget=(14 if tier == "quick" else 30)), cfg="MSGrammarD", env=env,
                                simulate=(3000 if tier == "quick" else 60000), depth=400, seed=seed, timeout=(90 if tier == "quick" else 900))
    b1, b2, b3 = (6000, 1500, 2500) if tier == "quick" else (120000, 20000, 40000)
    key = lambda c: hashlib.sha1("\x00".join(c["toks"]).encode()).hexdigest()
    ed1, ed2, der = gen.dedupe(ed1, key), gen.dedupe(ed2, key), gen.dedupe(der, key)
    n1 = len(ed1)
    # deterministic thinning of the single-edit space (quick): keep every k-th case
    if len(ed1) > b1:
        ed1 = sorted(ed1, key=key)[:: max(1, len(ed1) // b1)][:b1]
    if len(ed2) > b2:
        ed2 = rnd.sample(ed2, b2)
    if len(der) > b3:
        der = rnd.sample(der, b3)
    cases = gen.dedupe(ed1 + ed2 + der, key)
    # control-flow skeletons with break / continue / return also where they are illegal (GenCtl, AllowInvalid)
    from . import c01
    from .. import render
    import json as _json
    skel, gk = c01.generate(work / "skeletons", 2 if tier == "quick" else 3, allow_invalid=True)
    for c in skel:
        if not c["valid"] or "fromEmpty" in c["path"] or tier == "thorough":
            cases.append(dict(kind="skeleton", src=c["id"], toks=[], text=render.program(_json.loads(_json.dumps(c["prog"]["body"])))))
    # boundary expressions x syntactic contexts, import path shapes x forms x placements (GenTotal.tla, exhaustive)
    tot, gt = gen.run_generator("GenTotal", work / "total", dict(), timeout=600)
    # the context programs are only meaningful if their common prologue compiles
    pro = observe(binary, C.fresh_dir(work / "prologue"), "\n".join(tot[0]["prologue"]) + "\nprint 1\n")
    if pro["cls"] != "ok" or pro["exit"] != 0:
        raise C.ToolError(f"GenTotal prologue does not compile: {pro}")
    # (non-ASCII characters are written as ~X~ tokens in the specification and substituted here)
    sub = lambda s: s.replace("~E~", "\u00e9").replace("~J~", "\u65e5").replace("~M~", "\U0001F600")
    for c in tot:
        c["lines"] = [sub(l) for l in c["lines"]]
        cases.append(dict(kind="form:" + c["kind"], src=c["id"], toks=[], text="\n".join(c["lines"]) + "\n", lib=bool(c["lib"])))
    # plus the untouched corpus and its token-joined form
    for s in srcs:
        cases.append(dict(kind="corpus", src=str(s.relative_to(work)), toks=[], text=s.read_text(errors="replace")))
    root = C.fresh_dir(work / "slots")

    def one(c):
        text = c.get("text") or join(c["toks"])
        c["text"] = text
        c["obs"] = observe(binary, root, text, lib=c.get("lib", False))
        return c
    C.pmap(one, cases)
    classes = {}
    for c in cases:
        o = c["obs"]
        classes[o["cls"].split(" ")[0]] = classes.get(o["cls"].split(" ")[0], 0) + 1
        if o["cls"] != "ok":
            rep.violation(o["cls"], f"compile of a {c['kind']} input ({c.get('src', '')}) ended with {o['cls']} (exit {o['exit']}): {o['err'][-200:]!r}",
                          dict(kind=c["kind"], files={"main.ms": c["text"]}, observed=o))
    rep.coverage = dict(
        evaluations=len(cases), distinct_nontrivial=len(cases), outcome_classes=classes,
        illegal_placement_skeletons=sum(1 for c in cases if c["kind"] == "skeleton"),
        expression_context_forms=sum(1 for c in cases if c["kind"] == "form:expr"), import_forms=sum(1 for c in cases if c["kind"] == "form:import"), single_edits_enumerated=n1, single_edits_run=len(ed1), multi_edit_run=len(ed2), derivations_run=len(der), corpus_files=len(srcs),
        rule="MSGrammar.tla: (a) token-edit machine over the tokenised example corpus: all single delete/duplicate/swap edits (quick: deterministic thinning) and seeded simulations of up to 3 edits incl. replace/insert from a 55-token vocabulary; (b) leftmost derivations of the transcribed grammar with a depth budget (seeded -simulate); (c) the corpus itself; (d) GenCtl skeletons with break / continue / return in illegal places; (e) GenTotal.tla: 170 boundary or ill-formed expressions (incl. escapes the language does not have, in front of multi-byte characters) and scaling shapes x 31 syntactic contexts, constant arithmetic over 18 boundary operands x 7 operators x 18 operands x 3 contexts, and 19 import path shapes x 4 import forms x 7 placements, exhaustive; distinct by token sequence / text",
        samples=[dict(kind=c["kind"], text=c["text"][:160], outcome=c["obs"]["cls"]) for c in cases[:: max(1, len(cases) // 3)][:3]],
        states=g1.distinct, transitions=g1.generated, slowest_compile_s=round(max(c["obs"]["wall"] for c in cases), 2),
    )
    rep.assumptions = ["quick explores a fixed input set (its simulations use an internal seed); thorough samples with VERIF_SEED and can surface panic sites of the pinned tree that are not yet known",
                       "the specification contributes the input space; the oracle is the post-condition exit in {0,1} within 10 s",
                       "known panic sites are matched by source file and normalised message; a new site or a hang is a violation"]
    return rep.finish()
