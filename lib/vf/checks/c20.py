"""C20 `clean` deletes exactly the bytecode files of one directory.

spec/MSClean.tla (+GenClean, TraceClean).  TLC enumerates every tree (BFS) or samples deep
ones (-simulate), checks C20 on the model, and prints each tree; the harness materialises
it, runs the real `mscript clean`, snapshots the directory, and TLC decides whether the
observed step is a step of MSClean!Clean (trace validation).
"""
import os
import shutil
from pathlib import Path

from .. import common as C

PID = "C20"


def dec(name):
    """spec name -> file name (non-ASCII characters are percent-encoded in the specification)"""
    from urllib.parse import unquote
    return unquote(name)


def enc(name):
    from urllib.parse import quote
    return "".join(ch if ord(ch) < 128 else quote(ch) for ch in name)


def materialise(root, entries):
    d = root / "DIR"
    t = root / "targets"
    (t / "tdir").mkdir(parents=True)
    (t / "tfile").write_text("target-file")
    (t / "tdir" / "inner.mmm").write_text("inner")
    # the link targets are read-only: `clean` must not touch them in any way, permissions included
    os.chmod(t / "tfile", 0o444)
    os.chmod(t / "tdir" / "inner.mmm", 0o444)
    d.mkdir()
    for e in sorted(entries, key=lambda e: len(e["path"])):
        p = d.joinpath(*[dec(x) for x in e["path"]])
        up = "../" * len(e["path"])
        k = e["kind"]
        if k == "file":
            p.write_text("content:" + "/".join(e["path"]))
        elif k == "dir":
            p.mkdir()
        elif k == "lnfile":
            os.symlink(up + "targets/tfile", p)
        elif k == "lndir":
            os.symlink(up + "targets/tdir", p)
        elif k == "lndangling":
            os.symlink(up + "targets/none", p)
        else:
            raise C.ToolError("kind " + k)


def snapshot(root):
    d = root / "DIR"
    after = []
    contents_ok = True

    def walk(cur, rel):
        nonlocal contents_ok
        for name in sorted(os.listdir(cur)):
            p = cur / name
            r = rel + [enc(name)]
            if p.is_symlink():
                tgt = os.readlink(p)
                kind = "lnfile" if tgt.endswith("tfile") else "lndir" if tgt.endswith("tdir") else "lndangling"
                after.append(dict(path=r, kind=kind))
            elif p.is_dir():
                after.append(dict(path=r, kind="dir"))
                walk(p, r)
            else:
                after.append(dict(path=r, kind="file"))
                if p.read_text() != "content:" + "/".join(r):
                    contents_ok = False
    if d.is_dir() and not d.is_symlink():
        walk(d, [])
    t = root / "targets"
    outside_ok = (t / "tfile").is_file() and (t / "tfile").read_text() == "target-file" and \
        (t / "tdir" / "inner.mmm").is_file() and (t / "tdir" / "inner.mmm").read_text() == "inner" and \
        sorted(os.listdir(t)) == ["tdir", "tfile"] and os.listdir(t / "tdir") == ["inner.mmm"] and \
        (os.stat(t / "tfile").st_mode & 0o777) == 0o444 and (os.stat(t / "tdir" / "inner.mmm").st_mode & 0o777) == 0o444
    return after, contents_ok, outside_ok


def run(tier, replay=None):
    rep = C.Report(PID, tier, "model_checking")
    binary = C.build()
    work = C.fresh_dir(C.WORK / PID)
    seed = rep.seed
    # 1. generate (and model-check C20 on the spec)
    gens = []
    if tier == "quick":
        gens.append(C.tlc("GenClean", "GenClean", work / "gen", workers=8, timeout=600, coverage=True))
    else:
        gens.append(C.tlc("GenClean", "GenCleanT", work / "gen", workers=12, timeout=1500, coverage=True))
    for g in gens:
        if g.error or g.invariant_violated:
            raise C.ToolError(f"GenClean: {g.error or g.invariant_violated}")
    cases = []
    seen = set()
    for g in gens:
        for c in g.prints.get("CASE", []):
            key = C.short_hash(c)
            if key not in seen:
                seen.add(key)
                cases.append(c)
    # random deep trees (simulation) in thorough
    if tier == "thorough":
        (work / "sim").mkdir()
        cfgtxt = (C.SPEC / "GenCleanT.cfg").read_text().replace("MaxEntries = 3", "MaxEntries = 8")
        (C.SPEC / "GenCleanT.cfg")  # unchanged on disk; write variant into workdir
        simdir = work / "sim"
        for f in C.SPEC.glob("*.tla"):
            shutil.copy(f, simdir / f.name)
        (simdir / "GenCleanS.cfg").write_text(cfgtxt)
        s = C.tlc("GenClean", "GenCleanS", simdir, workers=1, timeout=120, simulate=3000, depth=9, seed=seed, copy_specs=False)
        if s.error or s.invariant_violated:
            raise C.ToolError(f"GenClean simulate: {s.error or s.invariant_violated}")
        for c in s.prints.get("CASE", []):
            key = C.short_hash(c)
            if key not in seen:
                seen.add(key)
                cases.append(c)
    C.log(f"[{PID}] {len(cases)} trees")
    # 2. materialise + run the real tool
    croot = C.fresh_dir(work / "cases")

    def one(ic):
        i, c = ic
        root = croot / str(i)
        root.mkdir()
        materialise(root, c["entries"])
        r = C.run_proc([binary, "clean", "DIR"], cwd=root, timeout=20)
        out = C.strip_ansi(r["out"])
        count = -1
        for line in out.splitlines():
            if line.startswith("Removed ") and line.endswith(" files"):
                try:
                    count = int(line.split()[1])
                except ValueError:
                    pass
        after, contents_ok, outside_ok = snapshot(root)
        ob = dict(id=i, entries=c["entries"], after=after, count=count, dir_exists=(root / "DIR").is_dir() and not (root / "DIR").is_symlink(), exit=r["exit"] if not r["timeout"] else 124,
                  outside_ok=outside_ok, contents_ok=contents_ok, stdout=out[-400:], stderr=r["err"][-400:])
        shutil.rmtree(root, ignore_errors=True)
        return ob
    obs = C.pmap(one, list(enumerate(cases)))
    C.write_ndjson(work / "obs.ndjson", obs)
    # 3. trace validation by TLC
    tv = C.tlc("TraceClean", "TraceClean", work / "trace", env=dict(OBS=str(work / "obs.ndjson")), workers=8, timeout=900)
    if tv.error or tv.invariant_violated:
        raise C.ToolError(f"TraceClean: {tv.error or tv.invariant_violated}")
    accepted = {a["id"] for a in tv.prints.get("ACCEPT", [])}
    rejected = {a["id"]: a for a in tv.prints.get("REJECT", [])}
    if len(accepted) + len(rejected) != len(obs) or accepted & set(rejected):
        raise C.ToolError(f"TraceClean verdict count mismatch: {len(accepted)}+{len(rejected)} vs {len(obs)}")
    for ob in obs:
        if ob["id"] in rejected:
            shape = sorted(f"{'/'.join(e['path'])}:{e['kind']}" for e in ob["entries"])
            dirs = sorted(e["path"][0] for e in ob["entries"] if e["kind"] == "dir" and len(e["path"]) == 1 and e["path"][0].endswith(".mmm") and not e["path"][0].startswith(".mmm"))
            key = ("dir-named-mmm " if dirs and ob["exit"] != 0 else "") + "tree=" + ",".join(shape)
            rep.violation(key, f"clean on tree {shape}: exit={ob['exit']} count={ob['count']} DIR still a directory={ob['dir_exists']} after={[('/'.join(e['path']), e['kind']) for e in ob['after']]}; spec: must remove {rejected[ob['id']]['must']} may remove {rejected[ob['id']]['may']}",
                          dict(observation=ob, spec=rejected[ob["id"]], how="materialise entries under DIR/, run `mscript clean DIR`, compare"))
    nontrivial = sum(1 for c in cases if any(e["path"][-1].count("mmm") for e in c["entries"]))
    rep.coverage = dict(
        states=sum(g.distinct for g in gens) + tv.distinct, transitions=sum(g.generated for g in gens) + tv.generated,
        traces_validated_against_impl=len(obs), accepted=len(accepted), rejected=len(rejected),
        evaluations=len(obs), distinct_nontrivial=nontrivial,
        rule="every tree reachable in GenClean (BFS, all trees up to MaxEntries over the name/kind sets; thorough adds seeded -simulate trees up to 8 entries); non-trivial = contains a name with 'mmm' in it",
        exhaustive=(tier == "quick"),
        samples=[cases[k] for k in (0, len(cases) // 2, len(cases) - 1)],
        action_coverage={k: v for k, v in list(gens[0].coverage.items())[:40]},
    )
    rep.assumptions = ["symlink to a directory with extension mmm: removing or keeping the link are both accepted (MayRemove)",
                       "tree is materialised on the sandbox filesystem (ext4/overlay); names are valid UTF-8"]
    return rep.finish()
