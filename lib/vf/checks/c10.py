"""C10 `const` names cannot be written to by any syntactic form.

GenConst.tla: the constness machine (a write is enabled only on a mutable binding) and the
exhaustive enumeration of (declaration, write form, write context) triples in which the form
denotes a write to the declared binding; each triple yields the program with `const` (must be
rejected at compile time, with a diagnostic, before anything runs) and its twin without
`const` (must compile and show the written value, as MSLang prescribes).  CheckConst.tla judges.
"""
import json
import re
import threading

from .. import classify, common as C
from .. import gen, render

PID = "C10"


def files_of(p):
    if "mods" in p:
        return {m["name"]: render.program(json.loads(json.dumps(m["body"]))) for m in p["mods"]}, p["mods"][p["entry"] - 1]["name"]
    return {"main": render.program(json.loads(json.dumps(p["body"])))}, "main"


def observe(binary, root, files, entry):
    d = root / f"slot{threading.get_ident()}"
    d.mkdir(exist_ok=True)
    for f in d.iterdir():
        f.unlink()
    for n, t in files.items():
        (d / f"{n}.ms").write_text(t)
    r = C.run_proc([binary, "run", f"{entry}.ms", "-q"], cwd=d, timeout=10)
    err = C.strip_ansi(r["err"])
    out = C.strip_ansi(r["out"])
    rejected = "Did not compile" in err
    return dict(exit=r["exit"] if not r["timeout"] else 124, rejected=rejected, diag=bool(re.search(r"--> [\w./-]+\.ms:\d+:\d+", out)),
                started=any(l == "START" for l in out.splitlines()), out=classify.out_lines(r["out"]) if not rejected else [],
                err=err[-400:], text=out[-500:])


def run(tier, replay=None):
    rep = C.Report(PID, tier, "fault_enumeration")
    binary = C.build()
    work = C.fresh_dir(C.WORK / PID)
    cases, g = gen.run_generator("GenConst", work / "gen")
    for c in cases:
        t = c["t"]
        c["id"] = f"{t['decl']}/{t['form']}/{t['ctx']}" + ("" if t["shadow"] == "none" else "/" + t["shadow"])
    cases.sort(key=lambda c: c["id"])
    root = C.fresh_dir(work / "slots")

    def one(c):
        f, e = files_of(c["prog"])
        c["files"] = f
        c["cobs"] = observe(binary, root, f, e)
        f2, e2 = files_of(c["twin"])
        c["twin_files"] = f2
        c["tobs"] = observe(binary, root, f2, e2) if c["has_twin"] else dict(exit=0, rejected=False, diag=False, started=False, out=[], err="", text="")
        return c
    C.pmap(one, cases)
    f = work / "cases.ndjson"
    slim = lambda o: dict(exit=o["exit"], rejected=o["rejected"], diag=o["diag"], started=o["started"], out=o["out"])
    C.write_ndjson(f, [dict(id=c["id"], legal=c["legal"], const_enabled=c["const_enabled"], has_twin=c["has_twin"], twin=c["twin"], cobs=slim(c["cobs"]), tobs=slim(c["tobs"])) for c in cases])
    r = C.tlc("CheckConst", "CheckConst", work / "judge", env=dict(CASES=str(f)), workers=8, timeout=1800)
    if r.error or r.invariant_violated:
        raise C.ToolError(f"CheckConst: {r.error or r.invariant_violated}")
    if r.distinct != len(cases):
        raise C.ToolError(f"CheckConst judged {r.distinct} of {len(cases)}")
    byid = {c["id"]: c for c in cases}
    for d in r.prints.get("CONSTWRITE", []):
        c = byid[d["id"]]
        o = c["cobs"]
        rep.violation(f"const-write {d['id']}", f"{d['id']}: a write to a const binding was not rejected at compile time: exit={o['exit']} rejected={o['rejected']} diagnostic={o['diag']} ran={o['started']} out={o['out']} {o['err'][-150:]!r}",
                      dict(case=c["id"], observed=o, files={f"{n}.ms": t for n, t in c["files"].items()}))
    for d in r.prints.get("LEGAL", []):
        c = byid[d["id"]]
        o = c["cobs"]
        rep.violation(f"legal {d['id']}", f"{d['id']}: the form denotes a same-named local, not the const: the program must be accepted and the const keep its initializer: expected {d['expected']} ({d['status']}); observed exit={o['exit']} rejected={o['rejected']} out={o['out']} {o['text'][-200:]!r}",
                      dict(case=c["id"], observed=o, expected=d, files={f"{n}.ms": t for n, t in c["files"].items()}))
    for d in r.prints.get("TWIN", []):
        c = byid[d["id"]]
        o = c["tobs"]
        rep.violation(f"twin {d['id']}", f"{d['id']}: the twin without `const` must compile and show the write: expected {d['expected']} ({d['status']}); observed exit={o['exit']} out={o['out']} {o['text'][-200:]!r}",
                      dict(case=c["id"], observed=o, expected=d, files={f"{n}.ms": t for n, t in c["twin_files"].items()}))
    rep.coverage = dict(
        evaluations=len(cases), distinct_nontrivial=len(cases), twins=sum(1 for c in cases if c["has_twin"]),
        rule="GenConst.tla: every (declaration in {module, typed, function-local, block-local, list, object, optional, class name, imported module, exported member}) x (write form in {=, typed =, += -= *= /= %=, ?=, modify, index =, index +=, field =, field +=, loop counter, unpack}) x (context in {same scope, nested block, loop body, nested function, block inside a nested function, method}) triple for which the form denotes a write to that binding; each with its mutable twin; x shadowing {none, a same-named local copy `x = x` at the start of the nested function / method (then `modify` still writes the const - rejected - and every other form writes the local - accepted, const unchanged), a sibling method with a parameter of that name}",
        legal_shadow_cases=sum(1 for c in cases if c["legal"]),
        exhaustive=True, states=r.distinct + g.distinct, transitions=r.generated + g.generated,
        samples=[dict(id=c["id"], program=list(c["files"].values())[0][-200:], rejected=c["cobs"]["rejected"]) for c in cases[:: max(1, len(cases) // 3)][:3]],
    )
    rep.assumptions = ["a name imported with `import a from m` is a local copy (the repository's test not_import_const_bypass pins this) and is not a const binding",
                       "a plain assignment / loop counter / unpacking inside a nested function or method declares a local and is not a write to the outer binding"]
    return rep.finish()
