"""C15 operands are evaluated left to right, once; logical operators short-circuit.

GenOrder.tla enumerates typed expression trees (prefix token sequences) whose leaves are
logging calls; MSLang.tla prescribes the log; the real binary runs the rendering.
"""
import json
import random

from .. import common as C
from .. import vmv
from .. import gen, l1

PID = "C15"


def run(tier, replay=None):
    rep = C.Report(PID, tier, "translation_validation")
    binary = C.build()
    work = C.fresh_dir(C.WORK / PID)
    rnd = random.Random(rep.seed)
    key = lambda c: " ".join(c["toks"])
    d1, g1 = gen.run_generator("GenOrder", work / "gen1", dict(MaxDepth=1))
    # operand depth 2 and more: too many trees to enumerate (a 4-argument call has ~10^8), sampled by seeded simulation
    d2, g2 = gen.run_generator("GenOrder", work / "sim2", dict(MaxDepth=2), simulate=(9000 if tier == "quick" else 80000), depth=60,
                               seed=rep.seed, timeout=(100 if tier == "quick" else 900))
    sim, g3 = gen.run_generator("GenOrder", work / "sim", dict(MaxDepth=4), simulate=(3000 if tier == "quick" else 40000),
                                depth=60, seed=rep.seed + 1, timeout=(100 if tier == "quick" else 600))
    d1 = gen.dedupe(d1, key)
    d2 = [c for c in gen.dedupe(d2, key) if key(c) not in {key(x) for x in d1}]
    sim = [c for c in gen.dedupe(sim, key) if len(c["toks"]) > 7]
    b2 = 5000 if tier == "quick" else 24000
    b3 = 2500 if tier == "quick" else 12000
    total2 = len(d2)
    if len(d2) > b2:
        d2 = rnd.sample(d2, b2)
    if len(sim) > b3:
        sim = rnd.sample(sim, b3)
    cases = gen.dedupe(d1 + d2 + sim, key)
    for c in cases:
        c["id"] = key(c)
    C.log(f"[{PID}] {len(d1)} trees with leaf operands (all), {len(d2)} of {total2} simulated depth-2 trees, {len(sim)} simulated deeper trees")
    dis, skips, st = l1.run_cases(binary, work, cases)
    # the compiled code on the value machine MSVMV: per-instruction trace validation of the interpreter and
    # translation validation of the compiler against MSLang (programs outside the machine's fragment are counted)
    import random as _random
    vres = vmv.stage(binary, work / "vmv", cases, 600 if tier == "quick" else 6000, _random.Random(rep.seed))
    vcov = vmv.report(rep, vres, "expression tree")
    byid = {c["id"]: c for c in cases}
    for c in cases:
        if c["rejected"]:
            rep.violation(f"compiler-rejects {c['id']}", f"well-typed expression program rejected: {c['obs'][0]['diag'][-400:]}",
                          dict(case=c["id"], files={"main.ms": c["src"]}))
    for d in dis:
        c = byid[d["id"]]
        rep.violation(f"{d['path']} toks=[{d['id']}]",
                      f"{d['path']}: tree [{d['id']}] semantics prescribes log {d['exp_out']} ({d['exp_status']}); real binary {d['obs_out']} exit={d['obs_exit']} {d['obs_fclass']}",
                      dict(case=c["id"], verdict=d, files={"main.ms": c["src"]}, stderr=[o["err"] for o in c["obs"]]))
    rep.coverage = dict(**vcov, traces_validated_against_impl=vres["recorded"],
        programs=len(cases), disagreements_checked=len(dis), out_of_model=len(skips),
        rejected_by_compiler=sum(1 for c in cases if c["rejected"]),
        states=st["states"] + vres["states"] + g1.distinct + g2.distinct, transitions=st["transitions"] + vres["transitions"] + g1.generated + g2.generated,
        evaluations=len(cases), distinct_nontrivial=sum(1 for c in cases if len(c["toks"]) >= 4),
        rule="GenOrder.tla: typed prefix-token derivations; all trees whose operands are leaves, seeded -simulate trees of operand depth 2 and up to 4; 23 productions incl. variable reads, a mutating call and boolean literals over int/bool incl. &&, ||, `or`, calls with 2-4 arguments, list literals, indexing, recursion inside operands; non-trivial = at least 4 tokens",
        samples=[dict(tokens=c["id"], src=c["src"].split("print \"S\"")[1][:300], log=c["obs"][0]["out"]) for c in cases[:: max(1, len(cases) // 3)][:3]],
    )
    rep.assumptions = ["MSLang.tla evaluates strictly left to right with short-circuit &&, ||, or"]
    return rep.finish()
