"""C02 static typing is sound: accepted programs never hit a dynamic type error.

GenSound.tla is a type-directed catalogue (operator x static kind pair matrix, unary operators,
every built-in in a typed position, optionals, fields, methods, closures, list/map elements);
each case prints `typeof r` (the compiler's own static type) and `r` (whose dynamic kind the
typed-print hook reports).  CheckSound.tla (TLC) judges accepted programs only: failures must be
of the dynamic classes the language defines, kinds must inhabit the reported static type.
The accepted programs of the L1 generators are additionally judged for dynamic type errors.
"""
import threading

from .. import classify, common as C
from .. import corpus, gen, progpool

PID = "C02"


def observe(binary, root, lines):
    d = root / f"slot{threading.get_ident()}"
    d.mkdir(exist_ok=True)
    (d / "main.ms").write_text("\n".join(lines) + "\n")
    tr = d / "t.ndjson"
    if tr.exists():
        tr.unlink()
    r = C.run_proc([binary, "run", "main.ms", "-q"], cwd=d, timeout=10, env=dict(MSCRIPT_VERIF_TRACE=str(tr), MSCRIPT_VERIF_TRACE_INS="0"))
    ev = [e for e in corpus.read_ndjson(tr) if e.get("e") == "print"]
    err = C.strip_ansi(r["err"])
    fclass, panic = classify.classify(r)
    out = r["out"].splitlines()
    ob = dict(exit=r["exit"], err=err[-400:], diag=C.strip_ansi(r["out"])[-300:], typeof="", kind="", fclass=fclass or "", text="")
    if r["timeout"]:
        ob["status"] = "timeout"
    elif fclass == "compile" or "GO" not in out and r["exit"] != 0 and "Did not compile" in err:
        ob["status"] = "rejected"
    elif r["exit"] == 101 and "panicked at compiler" in err:
        ob["status"] = "rejected"
    elif r["exit"] != 0:
        ob["status"] = "fail"
    elif len(ev) >= 3:
        ob["status"] = "ok"
        ob["typeof"], ob["kind"], ob["text"] = ev[-2]["text"], ev[-1]["kind"], ev[-1]["text"]
    else:
        ob["status"] = "fail"
        ob["fclass"] = "unclassified"
    return ob


def run(tier, replay=None):
    rep = C.Report(PID, tier, "exploration")
    binary = C.build()
    work = C.fresh_dir(C.WORK / PID)
    cases, g = gen.run_generator("GenSound", work / "gen")
    cases.sort(key=lambda c: c["id"])
    root = C.fresh_dir(work / "slots")
    obs = C.pmap(lambda c: observe(binary, root, c["lines"]), cases)
    judged = []
    for c, o in zip(cases, obs):
        c["obs"] = o
        if o["status"] in ("ok", "fail"):
            judged.append(c)
    # composed programs: whatever the compiler accepts among the generated control-flow programs (GenCtl pool) and the
    # example corpus must not end in a dynamic type error either
    import random
    pool = list(progpool.programs(binary, work / "pool", tier, rep.seed)) + list(corpus.copy_examples(work / "examples"))
    rnd = random.Random(rep.seed)
    if tier == "quick" and len(pool) > 900:
        pool = rnd.sample(pool, 900)
    # ... and the programs of the other feature areas (closures, identifiers, objects, lists / maps, evaluation order), and the
    # whole fault catalogue of C03 - twins and ill-typed programs alike: soundness is about whatever the compiler accepts
    feat = list(progpool.features(binary, work / "features", tier, rep.seed))
    flt = list(progpool.faults(work / "faults"))
    pool += feat + flt

    def run_group(srcs):
        out = []
        for src in srcs:
            r = C.run_proc([binary, "run", src.name, "-q"], cwd=src.parent, timeout=10, stdin="")
            fclass, panic = classify.classify(r)
            err = C.strip_ansi(r["err"])
            if r["timeout"]:
                status = "timeout"
            elif fclass == "compile" or (r["exit"] == 101 and "panicked at compiler" in err):
                status = "rejected"
            else:
                status = "ok" if r["exit"] == 0 else "fail"
            out.append(dict(id="composed " + str(src.relative_to(work)), lines=src.read_text(errors="replace").split("\n"), composed=True,
                            obs=dict(status=status, fclass=fclass or "", typeof="", kind="", text="", exit=r["exit"], err=err[-400:], diag="")))
        return out
    composed = [c for g2 in C.pmap(run_group, corpus.by_directory(pool)) for c in g2]
    cases += composed
    judged += [c for c in composed if c["obs"]["status"] in ("ok", "fail")]
    f = work / "cases.ndjson"
    C.write_ndjson(f, [dict(id=c["id"], status=c["obs"]["status"], fclass=c["obs"]["fclass"], typeof=c["obs"]["typeof"], kind=c["obs"]["kind"]) for c in judged])
    r = C.tlc("CheckSound", "CheckSound", work / "judge", env=dict(CASES=str(f)), workers=8, timeout=1800)
    if r.error or r.invariant_violated:
        raise C.ToolError(f"CheckSound: {r.error or r.invariant_violated}")
    if r.distinct != len(judged):
        raise C.ToolError(f"CheckSound judged {r.distinct} of {len(judged)}")
    byid = {c["id"]: c for c in cases}
    for d in r.prints.get("DYNTYPE", []):
        c = byid[d["id"]]
        o = c["obs"]
        rep.violation(f"dyntype {d['id']}", f"{d['id']}: accepted by the compiler but fails at run time with a {d['fclass']} error: {o['err'][-220:]!r}",
                      dict(case=c["id"], observed=o, files={"main.ms": "\n".join(c["lines"]) + "\n"}))
    for d in r.prints.get("KIND", []):
        c = byid[d["id"]]
        rep.violation(f"kind {d['id']}", f"{d['id']}: the compiler reports typeof = `{d['typeof']}` but the value printed is a {d['kind']} ({c['obs']['text']})",
                      dict(case=c["id"], observed=c["obs"], files={"main.ms": "\n".join(c["lines"]) + "\n"}))
    st = {}
    for c in cases:
        st[c["obs"]["status"]] = st.get(c["obs"]["status"], 0) + 1
    rep.coverage = dict(
        evaluations=len(cases), distinct_nontrivial=len(judged), outcome=st, exhaustive=True, composed_programs=len(composed),
        composed_accepted=sum(1 for c in composed if c["obs"]["status"] in ("ok", "fail")),
        rule="GenSound.tla: 19 binary operators x 6x6 static kind pairs, 2 unary operators x 6 kinds, about 120 built-in / index / field / method / closure / optional expressions in a typed position; plus composed programs (GenCtl control-flow pool, the example corpus, the feature pools of GenCapture / GenNames / GenObj / GenHeap / GenOrder and the whole fault catalogue GenFault - ill-typed programs and twins: whatever is accepted) judged for dynamic type errors only; non-trivial = accepted by the compiler (only those are judged)",
        states=r.distinct + g.distinct, transitions=r.generated + g.generated,
        samples=[dict(id=c["id"], typeof=c["obs"]["typeof"], kind=c["obs"]["kind"], value=c["obs"]["text"]) for c in judged[:: max(1, len(judged) // 4)][:4]],
    )
    rep.assumptions = ["`typeof` text is the compiler's static type; the dynamic kind comes from the typed-print hook",
                       "failure messages are classified by a closed table; an unclassified failure counts as a violation to triage",
                       "element kinds of lists are not compared with the element type (only Vector vs list type)"]
    return rep.finish()
