"""C01 core statements and control flow execute per the language semantics.

GenCtl.tla enumerates every nesting path of control constructs (BFS, exhaustive up to
MaxDepth) and builds the program AST; MSLang.tla is the reference semantics; the real binary
runs the rendering through `run` and `compile`+`execute`; CheckLang.tla (TLC) decides.
"""
import json
import random
from pathlib import Path

from .. import common as C
from .. import l1, render, vmv

PID = "C01"


def generate(work, depth, workers=8, allow_invalid=False):
    cfg = (C.SPEC / "GenCtl.cfg").read_text().replace("MaxDepth = 2", f"MaxDepth = {depth}").replace("AllowInvalid = FALSE", f"AllowInvalid = {'TRUE' if allow_invalid else 'FALSE'}")
    d = Path(work)
    d.mkdir(parents=True, exist_ok=True)
    import shutil
    for f in C.SPEC.glob("*.tla"):
        shutil.copy(f, d / f.name)
    (d / "GenCtlD.cfg").write_text(cfg)
    g = C.tlc("GenCtl", "GenCtlD", d, workers=workers, timeout=3000, copy_specs=False, heap_mb=8000)
    if g.error or g.invariant_violated:
        raise C.ToolError(f"GenCtl: {g.error or g.invariant_violated}")
    cases = g.prints.get("CASE", [])
    for c in cases:
        c["id"] = "/".join(c["path"]) + ":" + c["term"] + (":pad" if c["pad"] else ":bare")
    cases.sort(key=lambda c: c["id"])
    return cases, g


def materialise_pool(binary, workdir, tier, seed):
    """Programs for C09's all-paths exploration: the generated control-flow skeletons."""
    workdir = Path(workdir)
    cases, _ = generate(workdir / "gen", 2 if tier == "quick" else 3)
    rnd = random.Random(seed)
    if tier == "quick" and len(cases) > 1800:
        cases = rnd.sample(cases, 1800)
    elif len(cases) > 80000:
        cases = rnd.sample(cases, 80000)
    out = []
    for k, c in enumerate(cases):
        d = workdir / "p" / str(k)
        d.mkdir(parents=True, exist_ok=True)
        (d / "main.ms").write_text(render.program(json.loads(json.dumps(c["prog"]["body"]))))
        out.append(d / "main.ms")
    return out


def run(tier, replay=None):
    rep = C.Report(PID, tier, "translation_validation")
    binary = C.build()
    work = C.fresh_dir(C.WORK / PID)
    depth = 3
    cases, g = generate(work / "gen", depth)
    total = len(cases)
    rnd = random.Random(rep.seed)
    if tier == "quick":
        full_depth = depth - 1                   # exhaustive up to here, seeded sample of the deepest level
        keep = [c for c in cases if len(c["path"]) <= full_depth]
        rest = [c for c in cases if len(c["path"]) > full_depth]
        budget = 16000
        cases = keep + (rest if len(rest) <= budget else rnd.sample(rest, budget))
    else:
        # thorough: every path of <= 3 constructs, plus seeded -simulate walks of the same machine down to 5 constructs
        full_depth = depth
        keep, rest = cases, []
        from .. import gen as _gen
        sim, _ = _gen.run_generator("GenCtl", work / "sim", dict(MaxDepth=5, AllowInvalid="FALSE"), simulate=40000, depth=12, seed=rep.seed, timeout=1200)
        for c in sim:
            c["id"] = "/".join(c["path"]) + ":" + c["term"] + (":pad" if c["pad"] else ":bare")
        seen = {c["id"] for c in cases}
        deep = []
        for c in sim:
            if len(c["path"]) > depth and c["id"] not in seen:
                seen.add(c["id"])
                deep.append(c)
        rest = deep
        total += len(deep)
        cases = keep + deep
    # identifiers in every role a name can play (GenNames.tla, exhaustive): names that begin / end with a keyword are names
    from .. import gen
    names, gn = gen.run_generator("GenNames", work / "names", dict(), timeout=300)
    names = [c for c in names if c["role"] != "method_twice"]      # which of two declarations of a method counts is not specified (see GenNames)
    for c in names:
        c["id"] = f"name:{c['name']}:{c['role']}"
        c["path"] = []
    cases += names
    cases.sort(key=lambda c: c["id"])
    C.log(f"[{PID}] {len(cases)} programs (of {total} enumerated, depth <= {depth}; {len(names)} identifier programs)")
    dis, skips, st = l1.run_cases(binary, work, cases)
    byid = {c["id"]: c for c in cases}
    rejected = [c for c in cases if c["rejected"]]
    for c in rejected:
        rep.violation(f"compiler-rejects {c['id']}", f"well-typed core program rejected by the compiler: {c['obs'][0]['diag'][-300:]}",
                      dict(case=c["id"], files={"main.ms": c["src"]}, obs=c["obs"]))
    for d in dis:
        c = byid[d["id"]]
        rep.violation(f"{d['path']} {d['id']}",
                      f"{d['path']}: semantics prescribes status={d['exp_status']} out={d['exp_out']}; real binary exit={d['obs_exit']} class={d['obs_fclass']} out={d['obs_out']}",
                      dict(case=c["id"], verdict=d, files={"main.ms": c["src"]}, stderr=[o["err"] for o in c["obs"]],
                           how="render prog, run `mscript run main.ms -q` and `compile`+`execute`, compare with MSLang!Run"))
    # ---- the same programs one level down: the compiled code on the value machine (MSVMV) must be what the
    # interpreter did instruction by instruction, and must mean what the source means (MSLang)
    vres = vmv.stage(binary, work / "vmv", cases, 1200 if tier == "quick" else 12000, rnd)
    vcov = vmv.report(rep, vres, "core program")
    statuses = {}
    for c in cases:
        if not c["rejected"]:
            k = c["obs"][0]["fclass"] or "ok"
            statuses[k] = statuses.get(k, 0) + 1
    rep.coverage = dict(
        programs=len(cases), disagreements_checked=len(dis), enumerated=total, judged=len(cases) - len(rejected),
        out_of_model=len(skips), rejected_by_compiler=len(rejected), outcome_histogram=statuses,
        executions=2 * len(cases), states=st["states"] + g.distinct + vres["states"], transitions=st["transitions"] + g.generated + vres["transitions"],
        traces_validated_against_impl=vres["recorded"], **vcov,
        evaluations=len(cases), distinct_nontrivial=len(cases),
        rule=f"GenCtl.tla BFS: every path of <= {depth} constructs over 27 construct kinds (incl. a condition whose right operand is guarded by the left one, loops whose body ends in an unconditional break / return behind the nested part) (incl. loops whose start / end / step variables are reassigned in the body) x 8 terminators (incl. a bare `return` outside of any function, inside a block) x padded/bare; plus GenNames.tla: 56 identifiers that begin / end with a keyword, use `_` / digits or look like a compiler-generated label x 10 roles (variable, typed, parameter, loop counter, function name, list, captured, optional, class name, method name), exhaustive (exhaustive up to depth {full_depth}, plus {len(cases) - len(keep)} deeper programs: quick = seeded sample of the depth-3 level, thorough = seeded -simulate walks down to depth 5); every program is distinct by construction; each run through `run` and `compile`+`execute`",
        exhaustive=(len(cases) == total + len(names)), exhaustive_to_depth=full_depth,
        samples=[dict(id=c["id"], src=c["src"], observed=c["obs"][0]["out"]) for c in cases[:: max(1, len(cases) // 3)][:3]],
    )
    rep.assumptions = ["MSLang.tla is the reading of the language semantics (README, examples, compiler tests; DESIGN appendix C)",
                       "a Rust panic (exit 101) counts as 'exit status non-zero' for this property; whether it is a clean error is C17"]
    return rep.finish()
