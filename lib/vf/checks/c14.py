"""C14 string and number built-in methods compute their documented function.

CheckBuiltin.tla (over MSStr.tla and MSNum.tla) is the specification of every method;
GenBuiltin.tla enumerates method x boundary receivers/arguments; every call is executed by the
real binary with receiver and arguments in variables; TLC compares value and kind, or demands
a failure outside the domain.
"""
import json
import re
import struct
import threading

from .. import common as C
from .. import corpus, gen, numref

PID = "C14"
PARSE = {"int": "parse_int", "bigint": "parse_bigint", "byte": "parse_byte", "float": "parse_float"}
KINDMAP = {"Int": "int", "BigInt": "bigint", "Byte": "byte", "Float": "float"}


def lit(s):
    return '"' + s.replace("\\", "\\\\").replace('"', '\\"') + '"'


def value_src(v):
    if v["t"] == "str":
        return lit(v["s"])
    if v["kind"] == "float":
        return f'(get "{v["txt"]}".parse_float())'
    if v["kind"] == "int" and abs(int(v["dec"])) < 1000:
        return v["dec"] if int(v["dec"]) >= 0 else f"(-{-int(v['dec'])})"
    return f'(get "{v["dec"]}".{PARSE[v["kind"]]}())'


def program(c):
    lines = [f"r = {value_src(c['recv'])}"]
    names = []
    for k, a in enumerate(c["args"], 1):
        lines.append(f"a{k} = {value_src(a)}")
        names.append(f"a{k}")
    m = c["method"]
    if m == "index":
        call = f"r[{names[0]}]"
    elif m == "repeat":
        call = f"(r * {names[0]})"
    elif m == "concat":
        call = f"(r + {names[0]})"
    else:
        call = f"r.{m}({', '.join(names)})"
    lines += ['print "go"', f"print {call}"]
    return "\n".join(lines) + "\n"


def parse_scalar(kind, text, bits=None):
    if kind == "Str":
        return dict(t="str", s=text)
    if kind == "Bool":
        return dict(t="bool", b=text == "true")
    if kind == "Nil":
        return dict(t="nil")
    if kind.startswith("Optional<"):
        return parse_scalar(kind[9:-1], text, bits)
    if kind in KINDMAP:
        k = KINDMAP[kind]
        if k == "float":
            x = struct.unpack(">d", bytes.fromhex(bits))[0] if bits else float(text)
            return dict(numref.fjson(x), t="num")
        if k == "byte":
            return dict(t="num", kind="byte", dec=str(int(text[2:], 2)))
        return dict(t="num", kind=k, dec=text)
    return dict(t="other", s=kind)


def observe(binary, root, c):
    d = root / f"slot{threading.get_ident()}"
    d.mkdir(exist_ok=True)
    (d / "main.ms").write_text(program(c))
    tr = d / "t.ndjson"
    if tr.exists():
        tr.unlink()
    r = C.run_proc([binary, "run", "main.ms", "-q"], cwd=d, timeout=10, env=dict(MSCRIPT_VERIF_TRACE=str(tr), MSCRIPT_VERIF_TRACE_INS="0"))
    ev = [e for e in corpus.read_ndjson(tr) if e.get("e") == "print"]
    err = C.strip_ansi(r["err"])
    reached = "go" in r["out"].splitlines()
    ob = dict(exit=r["exit"], err=err[-300:], diag=C.strip_ansi(r["out"])[-300:], val=dict(t="none"))
    if r["timeout"]:
        ob["status"] = "timeout"
    elif not reached:
        ob["status"] = "setup"
    elif r["exit"] != 0:
        ob["status"] = "fail"
    elif len(ev) >= 2:
        e = ev[-1]
        ob["status"] = "ok"
        if e["kind"].startswith("Vector<"):
            kinds = e["kind"][7:-1].split(",") if e["kind"] != "Vector<>" else []
            if all(k == "Str" for k in kinds):
                parts = re.findall(r'"((?:[^"])*)"', e["text"])
                if len(parts) != len(kinds):
                    parts = [p for p in e["text"][1:-1].split(", ")]
                    parts = [p[1:-1] if len(p) >= 2 else p for p in parts]
                ob["val"] = dict(t="list", xs=[dict(t="str", s=p) for p in parts])
            else:
                ob["val"] = dict(t="other", s=e["kind"])
        else:
            ob["val"] = parse_scalar(e["kind"], e["text"], e.get("bits"))
    else:
        ob["status"] = "fail"
    return ob


def vtxt(v):
    if v["t"] == "str":
        return json.dumps(v["s"])
    return v["kind"] + ":" + (v.get("txt") or v.get("dec"))


def run(tier, replay=None):
    rep = C.Report(PID, tier, "exploration")
    binary = C.build()
    work = C.fresh_dir(C.WORK / PID)
    cases, g = gen.run_generator("GenBuiltin", work / "gen", dict(Full=("TRUE" if tier == "thorough" else "FALSE")), timeout=2400)
    for c in cases:
        c["id"] = f"{vtxt(c['recv'])}.{c['method']}({', '.join(vtxt(a) for a in c['args'])})"
    cases.sort(key=lambda c: c["id"])
    root = C.fresh_dir(work / "slots")
    obs = C.pmap(lambda c: observe(binary, root, c), cases)
    judged, setup = [], 0
    for c, o in zip(cases, obs):
        c["obs"] = o
        if o["status"] in ("setup", "timeout"):
            setup += 1
        else:
            judged.append(c)
    f = work / "cases.ndjson"
    C.write_ndjson(f, [dict(id=c["id"], recv=c["recv"], method=c["method"], args=c["args"], obs=dict(status=c["obs"]["status"], val=c["obs"]["val"])) for c in judged])
    r = C.tlc("CheckBuiltin", "CheckBuiltin", work / "judge", env=dict(CASES=str(f)), workers=12, timeout=3000, heap_mb=10000)
    if r.error or r.invariant_violated:
        raise C.ToolError(f"CheckBuiltin: {r.error or r.invariant_violated}")
    if r.distinct != len(judged):
        raise C.ToolError(f"CheckBuiltin judged {r.distinct} of {len(judged)}")
    byid = {c["id"]: c for c in cases}
    for d in r.prints.get("DISAGREE", []):
        c = byid[d["id"]]
        o = c["obs"]
        rk = c["recv"].get("kind", "str")
        rep.violation(f"{c['method']}/{rk} {d['id']}", f"{d['id']}: specification prescribes {d['expected']}; real binary: {o['status']} {o['val'] if o['status'] == 'ok' else o['err'][-200:]!r}",
                      dict(case=c["id"], expected=d["expected"], observed=o, files={"main.ms": program(c)}))
    meths = {}
    for c in judged:
        meths[c["method"]] = meths.get(c["method"], 0) + 1
    rep.coverage = dict(
        evaluations=len(cases), distinct_nontrivial=len(judged), not_executable=setup, out_of_model=len(r.prints.get("SKIP", [])),
        per_method=meths, states=r.distinct + g.distinct, transitions=r.generated + g.generated, exhaustive=True,
        rule="GenBuiltin.tla: every string/number built-in x receivers and arguments from the boundary sets (5 ASCII strings, 6 patterns, positions -1..6, 39 parse texts, radices 1/2/10/16/36/37, numeric boundary values of the 4 kinds, exponents -1..128); non-trivial = compiled and executed up to the call",
        samples=[dict(id=c["id"], status=c["obs"]["status"], value=c["obs"]["val"]) for c in judged[:: max(1, len(judged) // 4)][:4]],
    )
    rep.assumptions = ["ASCII receivers (byte and character units coincide)", "float powi/powf, float printing, negative sqrt, split at a negative position, parse texts with 0x prefix / exponents are unspecified and not judged",
                       "a panic counts as a failure for this property"]
    return rep.finish()
