"""C12 optional values: nil test, `get`, `or` and `?=` behave as defined.

GenOpt.tla enumerates carrier x type x nil/present x use x position; MSLang.tla prescribes
output, failure class; the `get` failure must name the position of that `get`.
"""
from .. import common as C
from .. import vmv
from .. import gen, l1

PID = "C12"


def run(tier, replay=None):
    rep = C.Report(PID, tier, "translation_validation")
    binary = C.build()
    work = C.fresh_dir(C.WORK / PID)
    cases, g = gen.run_generator("GenOpt", work / "gen")
    for c in cases:
        s = c["sc"]
        c["id"] = f"{s['carrier']}/{s['ty']}/{'present' if s['present'] else 'nil'}/{s['use']}/{s['pos']}"
    cases.sort(key=lambda c: c["id"])
    C.log(f"[{PID}] {len(cases)} scenarios")
    dis, skips, st = l1.run_cases(binary, work, cases)
    # the compiled code on the value machine MSVMV: per-instruction trace validation of the interpreter and
    # translation validation of the compiler against MSLang (programs outside the machine's fragment are counted)
    import random as _random
    vres = vmv.stage(binary, work / "vmv", cases, 500 if tier == "quick" else 5000, _random.Random(rep.seed))
    vcov = vmv.report(rep, vres, "optional scenario")
    byid = {c["id"]: c for c in cases}
    for c in cases:
        if c["rejected"]:
            rep.violation(f"compiler-rejects {c['id']}", f"optional program rejected: {c['obs'][0]['diag'][-500:]}",
                          dict(case=c["id"], files={"main.ms": c["src"]}))
    for d in dis:
        c = byid[d["id"]]
        rep.violation(f"{d['path']} {d['id']}",
                      f"{d['path']}: scenario {d['id']}: semantics prescribes {d['exp_out']} status={d['exp_status']} position={d['expect']}; real binary {d['obs_out']} exit={d['obs_exit']} {d['obs_fclass']} pos={d['obs_pos']}",
                      dict(case=c["id"], verdict=d, files={"main.ms": c["src"]}, stderr=[o["err"] for o in c["obs"]]))
    rep.coverage = dict(**vcov, traces_validated_against_impl=vres["recorded"],
        programs=len(cases), disagreements_checked=len(dis), out_of_model=len(skips),
        rejected_by_compiler=sum(1 for c in cases if c["rejected"]),
        states=st["states"] + vres["states"] + g.distinct, transitions=st["transitions"] + vres["transitions"] + g.generated,
        nil_failures_with_position=sum(1 for c in cases if not c["rejected"] and c["obs"][0]["fclass"] == "nil"),
        evaluations=len(cases), distinct_nontrivial=len(cases),
        rule="GenOpt.tla: the full product carrier{var,param,result,elem} x type{int,str,list} x {nil,present} x 22 uses (incl. a bare `get` statement and `get` behind multi-byte text on its line) x 4 positions; exhaustive",
        exhaustive=True,
        samples=[dict(id=c["id"], src=c["src"], out=c["obs"][0]["out"]) for c in cases[:: max(1, len(cases) // 3)][:3]],
    )
    rep.assumptions = ["column of a `get` failure must lie inside the parenthesised get expression (the implementation reports the operand's column)"]
    return rep.finish()
