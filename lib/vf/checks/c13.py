"""C13 lists and maps are shared by reference and their operations match their model.

GenHeap.tla enumerates operation histories over two containers and a re-pointable alias
(lists of int / str / optional, maps str->int); MSLang.tla's heap (sequences, entry lists) is
the mathematical model; every variable is observed after every operation.
"""
import json
import random

from .. import common as C
from .. import vmv
from .. import gen, l1

PID = "C13"


def op_id(o):
    return o["op"] + "(" + ",".join(str(o[k]) for k in ("x", "y", "i", "k") if k in o) + ")"


def run(tier, replay=None):
    rep = C.Report(PID, tier, "exploration")
    binary = C.build()
    work = C.fresh_dir(C.WORK / PID)
    rnd = random.Random(rep.seed)
    key = lambda c: c["mode"] + c["ty"] + json.dumps(c["hist"], sort_keys=True)
    l2all, g2 = gen.run_generator("GenHeap", work / "gen2", dict(MaxLen=2), cfg="GenHeapLight", timeout=1500)
    sim, g3 = gen.run_generator("GenHeap", work / "sim", dict(MaxLen=(8 if tier == "quick" else 12)), cfg="GenHeapLight",
                                simulate=(2500 if tier == "quick" else 30000), depth=14, seed=rep.seed, timeout=(60 if tier == "quick" else 600))
    l2all = gen.dedupe(l2all, key)
    l1c = [c for c in l2all if len(c["hist"]) == 1]
    l2c = [c for c in l2all if len(c["hist"]) == 2]
    sim = [c for c in gen.dedupe(sim, key) if len(c["hist"]) >= 3]
    n2 = len(l2c)
    b2, b3 = (3500, 1500) if tier == "quick" else (16000, 8000)
    # pairs (re-binding of the alias, mutation): the place where wrong sharing shows - kept apart from the rest of the pairs so
    # that the sample always holds many of them (all of them in thorough)
    REBIND = {"alias", "clone", "filterto", "mapto", "litfrom", "mapfrom", "joinalias", "malias", "mclone", "mlitfrom"}
    MUTATE = {"push", "reverse", "clear", "inner", "remove", "set", "opset", "opsub", "seteq", "join", "mset", "mopset", "msub", "replace", "mremove", "mclear"}
    share = [c for c in l2c if c["hist"][0]["op"] in REBIND and c["hist"][1]["op"] in MUTATE]
    bs = 2500 if tier == "quick" else len(share)
    if len(share) > bs:
        # lists of lists are where the *depth* of sharing shows (a clone shares its rows with the original): all of those pairs
        deep = [c for c in share if c["ty"] == "nest"]
        rest = [c for c in share if c["ty"] != "nest"]
        share = deep + rnd.sample(rest, min(len(rest), bs))
        C.log(f"[{PID}] sharing pairs: all {len(deep)} over nested lists, {min(len(rest), bs)} of {len(rest)} others")
    if len(l2c) > b2:
        l2c = rnd.sample(l2c, b2)
    l2c = gen.dedupe(share + l2c, key)
    if len(sim) > b3:
        sim = rnd.sample(sim, b3)
    cases, g1 = gen.expand("GenHeap", work / "expand", gen.dedupe(l1c + l2c + sim, key), "GenHeapSel")
    for c in cases:
        c["id"] = f"{c['mode']}/{c['ty']}: " + " ; ".join(op_id(o) for o in c["hist"])
    C.log(f"[{PID}] {len(l1c)} single ops (all), {len(l2c)} of {n2} length-2 histories, {len(sim)} simulated longer")
    dis, skips, st = l1.run_cases(binary, work, cases)
    # the compiled code on the value machine MSVMV: per-instruction trace validation of the interpreter and
    # translation validation of the compiler against MSLang (programs outside the machine's fragment are counted)
    import random as _random
    vres = vmv.stage(binary, work / "vmv", cases, 500 if tier == "quick" else 5000, _random.Random(rep.seed))
    vcov = vmv.report(rep, vres, "list/map history")
    byid = {c["id"]: c for c in cases}
    for c in cases:
        if c["rejected"]:
            rep.violation(f"compiler-rejects {c['id']}", f"container program rejected: {c['obs'][0]['diag'][-500:]}",
                          dict(case=c["id"], files={"main.ms": c["src"]}))
    for d in dis:
        c = byid[d["id"]]
        exp, got = d["exp_out"], d["obs_out"]
        k = next((i for i in range(min(len(exp), len(got))) if exp[i] != got[i]), min(len(exp), len(got)))
        # identity of the failing thing: the operation after which the first difference shows
        per = 3 if c["mode"] == "list" else 24
        opn = max(0, (k - per)) // 1
        ops = [op_id(o) for o in c["hist"]]
        rep.violation(f"{d['path']} {d['id']}",
                      f"{d['path']}: history {ops}: model prescribes status={d['exp_status']} lines {exp[max(0,k-3):k+3]} (at line {k}); real binary {got[max(0,k-3):k+3]} exit={d['obs_exit']} {d['obs_fclass']}",
                      dict(case=c["id"], verdict=d, first_diff_line=k, files={"main.ms": c["src"]}, stderr=[o["err"] for o in c["obs"]]))
    rep.coverage = dict(**vcov, traces_validated_against_impl=vres["recorded"],
        evaluations=len(cases), distinct_nontrivial=sum(1 for c in cases if len(c["hist"]) >= 2),
        rule="GenHeap.tla: histories over 98 list operations x 3 element types and 64 map operations, on two containers plus a re-pointable/clonable alias, boundary indices -1/0/len-1/len; all single operations, (sample of) all pairs, seeded -simulate histories up to 8/12; all variables observed after every operation; non-trivial = at least two operations",
        samples=[dict(id=c["id"], out=c["obs"][0]["out"][-8:]) for c in cases[:: max(1, len(cases) // 3)][:3]],
        states=st["states"] + vres["states"] + g1.distinct + g2.distinct, transitions=st["transitions"] + vres["transitions"] + g1.generated + g2.generated,
        out_of_model=len(skips), rejected_by_compiler=sum(1 for c in cases if c["rejected"]), executions=2 * len(cases),
    )
    rep.assumptions = ["map iteration order is unspecified: keys/values/pairs are observed through len and index_of only",
                       "a panic counts as 'stops the program with a failure' for this property (C17 judges panics)"]
    return rep.finish()
