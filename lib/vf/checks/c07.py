"""C07 closures capture variables by reference; `modify` writes through.

GenClos.tla enumerates operation histories over closures created at module level, in a
function (two instances) and in a nested function; MSLang.tla (cells + capture maps) gives
the expected output; the real binary runs the rendering; CheckLang.tla decides.
"""
import json

from .. import common as C
from .. import vmv
from .. import gen, l1

PID = "C07"


def hist_id(h):
    def one(o):
        if o["op"] == "call":
            return f"{o['inst']}{o['f']}.{o['via'][0]}"
        if o["op"] == "assign":
            return f"x={o['k']}"
        return f"isc({o['f']})"
    return " ".join(one(o) for o in h)


def run(tier, replay=None):
    rep = C.Report(PID, tier, "exploration")
    binary = C.build()
    work = C.fresh_dir(C.WORK / PID)
    import random
    key = lambda c: json.dumps(c["hist"], sort_keys=True)
    rnd = random.Random(rep.seed)
    bfs, g = gen.run_generator("GenClos", work / "gen", dict(MaxLen=2), cfg="GenClosLight", timeout=1200)
    if tier == "quick":
        sim, g2 = gen.run_generator("GenClos", work / "sim", dict(MaxLen=8), cfg="GenClosLight", simulate=700, depth=9, seed=rep.seed, timeout=120)
    else:
        sim, g2 = gen.run_generator("GenClos", work / "sim", dict(MaxLen=12), cfg="GenClosLight", simulate=8000, depth=13, seed=rep.seed, timeout=900)
    bfs = gen.dedupe(bfs, key)
    enumerated = len(bfs)
    # every single operation; every ordered pair in thorough, a seeded sample of the pairs in quick
    singles = [c for c in bfs if len(c["hist"]) == 1]
    pairs = [c for c in bfs if len(c["hist"]) == 2]
    pair_budget = 2600 if tier == "quick" else 12000
    if len(pairs) > pair_budget:
        pairs = rnd.sample(pairs, pair_budget)
    bfs = singles + pairs
    sim = [c for c in gen.dedupe(sim, key) if len(c["hist"]) >= 3]
    budget = 1500 if tier == "quick" else 10000
    if len(sim) > budget:
        sim = rnd.sample(sim, budget)
    nbfs = len(bfs)
    cases, gx = gen.expand("GenClos", work / "expand", gen.dedupe(bfs + sim, key), "GenClosSel")
    bfs = cases[:nbfs]
    for c in cases:
        c["id"] = hist_id(c["hist"])
    # capture analysis by syntactic position (GenCapture.tla, exhaustive product)
    cap, gc = gen.run_generator("GenCapture", work / "capture", dict(), timeout=300)
    for c in cap:
        c["id"] = f"capture:{c['pos']}:{'modx' if c['modx'] else 'nomodx'}"
        c["hist"] = [dict(op="call")]
    cases += cap
    C.log(f"[{PID}] {len(bfs)} exhaustive histories + {len(cases) - len(bfs) - len(cap)} simulated long ones + {len(cap)} capture-position programs")
    dis, skips, st = l1.run_cases(binary, work, cases)
    # the compiled code on the value machine MSVMV: per-instruction trace validation of the interpreter and
    # translation validation of the compiler against MSLang (programs outside the machine's fragment are counted)
    import random as _random
    vres = vmv.stage(binary, work / "vmv", cases, 700 if tier == "quick" else 7000, _random.Random(rep.seed))
    vcov = vmv.report(rep, vres, "closure history")
    byid = {c["id"]: c for c in cases}
    for c in cases:
        if c["rejected"]:
            rep.violation(f"compiler-rejects {c['id']}", f"closure program rejected by the compiler: {c['obs'][0]['diag'][-400:]}",
                          dict(case=c["id"], files={"main.ms": c["src"]}))
    for d in dis:
        c = byid[d["id"]]
        # stable identity of the failing history: the first observed line that differs
        exp, got = d["exp_out"], d["obs_out"]
        k = next((i for i in range(min(len(exp), len(got))) if exp[i] != got[i]), min(len(exp), len(got)))
        shadow = any(o["op"] == "call" and o.get("via") == "shadow" for o in c["hist"])
        rep.violation(f"{d['path']} hist=[{d['id']}]",
                      f"{d['path']}: history [{d['id']}] semantics prescribes {exp} (status {d['exp_status']}); real binary printed {got} exit={d['obs_exit']} {d['obs_fclass']} (first difference at line {k})",
                      dict(case=c["id"], verdict=d, files={"main.ms": c["src"]}, stderr=[o["err"] for o in c["obs"]]))
    rep.coverage = dict(**vcov, traces_validated_against_impl=vres["recorded"],
        evaluations=len(cases), distinct_nontrivial=sum(1 for c in cases if any(o["op"] == "call" for o in c["hist"])),
        rule="GenClos.tla: operation histories over 143 operations (9 closure instances - module level, two calls of one maker, nested maker, shadowing middle function, captured parameter, two iterations of a loop body, made inside a method - x 5 closure kinds (reader, modify-writer, local writer, typed local writer, `or`-fallback reader) x 3 call routes (direct, through a caller owning a same-named local, through a plain caller), owner assignment, is_closure): every single operation, every ordered pair (thorough) or a seeded sample of the pairs (quick), plus seeded -simulate histories up to length 8 (quick) / 12 (thorough); non-trivial = contains at least one closure call; distinct by history; plus GenCapture.tla (exhaustive): 30 syntactic positions of the single use of a captured variable, 8 `modify` target types (optional set / cleared / swapped, strings of other lengths, ...), 5 callback drivers (escaped closures run by map / filter over 4 elements, with call counting) 12 receiver positions 3 late declarations (the maker declares a same-named variable only after the literals were made), 2 recursion shapes (every level of a plain / tail recursion makes closures over its own parameter) and 2 loop counters spelled like the captured variable (a captured list / object used only as assignment target, receiver, indexed or dotted operand), each x {module-level same-named variable present, absent}, called directly, through a caller owning a same-named local and through a plain caller after the defining frame is gone",
        capture_position_programs=len(cap), enumerated_len_le_2=enumerated, singles=len(singles), pairs_run=len(pairs),
        samples=[dict(history=c["id"], observed=c["obs"][0]["out"]) for c in cases[:: max(1, len(cases) // 3)][:3]],
        states=st["states"] + vres["states"] + g.distinct, transitions=st["transitions"] + vres["transitions"] + g.generated, out_of_model=len(skips),
        rejected_by_compiler=sum(1 for c in cases if c["rejected"]), executions=2 * len(cases), exhaustive_len=1 if tier == "quick" else 2,
    )
    rep.assumptions = ["MSLang.tla closure semantics: lexical scoping, capture of free variables by cell identity, `modify` writes the captured cell, plain assignment declares a local"]
    return rep.finish()
