"""C19 foreign calls pass the operand stack unchanged and deliver result or error.

MSFfi.tla is the call convention as a small stack machine; GenFfi.tla enumerates argument
vectors x call kinds (value / no value / raised error / missing symbol / missing library);
each case is hand-assembled into human-readable bytecode, transpiled and executed against the
probe library (harness/ffi_probe), which reports the argument slice it received; CheckFfi.tla
judges stdout, exit status and the error text.
"""
import os
import shutil
import subprocess
import threading
from pathlib import Path

from .. import classify, common as C
from .. import gen

PID = "C19"
MAKE = {"int": "make_int", "str": "make_str", "float": "make_float", "bigint": "make_bigint", "byte": "make_byte", "bool": "make_bool"}


def build_probe():
    d = C.VERIF / "harness" / "ffi_probe"
    shutil.copy(C.REPO / "Cargo.lock", d / "Cargo.lock")
    p = subprocess.run(["cargo", "build", "--offline", "--quiet"], cwd=d, capture_output=True, text=True, timeout=1800,
                       env=dict(os.environ, CARGO_NET_OFFLINE="true"))
    so = C.BUILD / "ffi_target" / "debug" / "libffi_probe.so"
    if p.returncode != 0 or not so.exists():
        raise C.ToolError("ffi_probe build failed: " + p.stderr[-800:])
    return so


BACKSLASH_NAME = "./ext\\libprobe.so"     # a file in the working directory whose name contains a backslash


SEARCH_NAME = "libprobe_sp.so"             # a bare file name: resolved by the dynamic loader through LD_LIBRARY_PATH


def q(s):
    return '"' + s.replace("\\", "\\\\").replace('"', '\\"') + '"'


def assemble(c, lib):
    def callins(call):
        base = {"plain": str(lib), "backslash": BACKSLASH_NAME, "searchpath": SEARCH_NAME}[c.get("spell", "plain")]
        libpath = base if call != "missing_library" else base + ".absent"
        sym = call if call.startswith("probe_") else ("probe_echo" if call == "missing_library" else "probe_absent")
        return f"\tcall_lib {q(libpath)} {q(sym)}"
    pushes = [f"\t{MAKE[v['kind']]} {q(v['src'])}" for v in c["vals"]]
    where = c.get("where", "module")
    helper = []
    lines = ["function __module__"]
    if where == "module":
        lines += pushes + [callins(c["call"]), '\tprintn "*"', "\tvoid"]
    elif where in ("fn", "fn_args"):        # the whole exchange inside a bytecode function (fn_args: one that was called with arguments)
        helper = ["function helper"] + pushes + [callins(c["call"]), '\tprintn "*"', "\tvoid", "\tret", "end"]
        lines += (['\tmake_int "77"', '\tmake_str "zz"'] if where == "fn_args" else []) + ['\tcall "main.mmm#helper"', "\tvoid"]
    elif where == "module_tail":   # the program ends with the foreign call: `call_lib` directly before the module's `ret`
        return "\n".join(["function __module__"] + pushes + [callins(c["call"]), "\tret", "end"]) + "\n"
    else:                      # tail: the foreign call is the last instruction before `ret`; the module prints what comes back
        helper = ["function helper"] + pushes + [callins(c["call"]), "\tret", "end"]
        lines += (['\tmake_int "77"', '\tmake_str "zz"'] if where == "tail_args" else []) + ['\tcall "main.mmm#helper"', '\tprintn "*"', "\tvoid"]
    if c.get("call2"):
        for v in c["vals2"]:
            lines.append(f"\t{MAKE[v['kind']]} {q(v['src'])}")
        lines += [callins(c["call2"]), '\tprintn "*"', "\tvoid"]
    lines += ['\tmake_str "after"', '\tprintn "*"', "\tvoid", "\tret_mod", "end"]
    return "\n".join(helper + lines) + "\n"


def observe(binary, root, c, lib):
    d = root / f"slot{threading.get_ident()}"
    d.mkdir(exist_ok=True)
    for f in d.iterdir():
        f.unlink()
    if c.get("spell") == "backslash":
        os.symlink(lib, d / BACKSLASH_NAME[2:])
    (d / "main.transpiled.mmm").write_text(assemble(c, lib))
    t = C.run_proc([binary, "transpile", "main.transpiled.mmm"], cwd=d, timeout=10)
    if t["exit"] != 0:
        return dict(exit=-2, out=[], banner=False, err="transpile failed: " + C.strip_ansi(t["err"])[-300:])
    env = None
    if c.get("spell") == "searchpath":
        sp = root / "searchpath"
        sp.mkdir(exist_ok=True)
        if not (sp / SEARCH_NAME).exists():
            try:
                os.symlink(lib, sp / SEARCH_NAME)
            except FileExistsError:
                pass
        env = dict(LD_LIBRARY_PATH=str(sp))
    r = C.run_proc([binary, "execute", "main.mmm"], cwd=d, timeout=10, env=env)
    err = C.strip_ansi(r["err"])
    return dict(exit=r["exit"] if not r["timeout"] else 124, out=classify.out_lines(r["out"]), banner="FATAL RUNTIME ERROR" in err, err=err[-1200:])


def run(tier, replay=None):
    rep = C.Report(PID, tier, "exploration")
    binary = C.build()
    lib = build_probe()
    work = C.fresh_dir(C.WORK / PID)
    mm = C.tlc("MSFfiMachine", "MSFfiMachine", work / "machine", workers=4, timeout=900)
    if mm.error or mm.invariant_violated:
        raise C.ToolError(f"MSFfiMachine: {mm.error or mm.invariant_violated}")
    c3, g = gen.run_generator("GenFfi", work / "gen", dict(MaxLen=(3 if tier == "quick" else 4)), timeout=2400)
    c1, g1 = gen.run_generator("GenFfi", work / "gen1", dict(MaxLen=(1 if tier == "quick" else 2), ValIdx="{1,2,3,4,5,6,7,8,9,10,11,12}"))
    cases = gen.dedupe(c3 + c1, lambda c: (tuple(c["args"]), c["call"], c["call2"], tuple(c["args2"]), c["spell"], c["where"]))
    if tier == "thorough":
        c6, g6 = gen.run_generator("GenFfi", work / "gen6", dict(MaxLen=6, ValIdx="{1,2}"))
        cases = gen.dedupe(cases + c6, lambda c: (tuple(c["args"]), c["call"], c["call2"], tuple(c["args2"]), c["spell"], c["where"]))
    for c in cases:
        c["id"] = ("" if c["where"] == "module" else f"[call in {c['where']}] ") + {"plain": "", "backslash": "[lib name with backslash] ", "searchpath": "[bare lib name on the loader search path] "}[c["spell"]] + f"{c['call']}({', '.join(v['dbg'] for v in c['vals'])})" + (f" ; {c['call2']}({', '.join(v['dbg'] for v in c['vals2'])})" if c["call2"] else "")
    cases.sort(key=lambda c: c["id"])
    root = C.fresh_dir(work / "slots")
    obs = C.pmap(lambda c: observe(binary, root, c, lib), cases)
    for c, o in zip(cases, obs):
        c["obs"] = o
    f = work / "cases.ndjson"
    C.write_ndjson(f, [dict(id=c["id"], args=c["args"], call=c["call"], call2=c["call2"], args2=c["args2"], where=c["where"], obs=c["obs"]) for c in cases])
    r = C.tlc("CheckFfi", "CheckFfi", work / "judge", env=dict(CASES=str(f)), workers=8, timeout=1800)
    if r.error or r.invariant_violated:
        raise C.ToolError(f"CheckFfi: {r.error or r.invariant_violated}")
    if r.distinct != len(cases):
        raise C.ToolError(f"CheckFfi judged {r.distinct} of {len(cases)}")
    byid = {c["id"]: c for c in cases}
    for d in r.prints.get("DISAGREE", []):
        c = byid[d["id"]]
        o = c["obs"]
        rep.violation(d["id"], f"{d['id']}: specification prescribes out={d['out']} status={d['status']} msg={d['msg']!r}; real binary: exit={o['exit']} out={o['out']} banner={o['banner']} err={o['err'][-200:]!r}",
                      dict(case=c["id"], expected=d, observed=o, files={"main.transpiled.mmm": assemble(c, lib)}))
    rep.coverage = dict(
        evaluations=len(cases), distinct_nontrivial=sum(1 for c in cases if len(c["args"]) >= 1),
        rule="GenFfi.tla BFS: all argument vectors up to length 3 (thorough 4, and 6 over two values) over one value per kind (int, str with a space, float, bigint max, byte, bool) and length <= 1 (2) over twelve boundary values x {echo, last, none, fail, missing symbol, missing library}; non-trivial = at least one argument",
        exhaustive=True, states=r.distinct + g.distinct + mm.distinct, transitions=r.generated + g.generated + mm.generated, machine_states=mm.distinct,
        samples=[dict(id=c["id"], out=c["obs"]["out"], exit=c["obs"]["exit"]) for c in cases[:: max(1, len(cases) // 4)][:4]],
    )
    rep.assumptions = ["the probe library is compiled against /repo/bytecode with the same flags as the binary (same Primitive layout)",
                       "arguments reach call_lib through make_* instructions of hand-assembled text bytecode (transpile + execute path)"]
    return rep.finish()
