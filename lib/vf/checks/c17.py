"""C17 run-time failures are reported as MScript errors with an exact call trace.

GenFail.tla enumerates failure kind x position x call chain (function / method / list
callback, optionally crossing into an imported module); MSLang.tla prescribes the output
prefix, the failure class and the stack of active functions; the judge (CheckLang.tla) demands
the fatal-error banner, exit 1 (not a panic / abort) and a trace structurally equal to the
model's activation list.
"""
import random

from .. import common as C
from .. import vmv
from .. import gen, l1

PID = "C17"


def run(tier, replay=None):
    rep = C.Report(PID, tier, "exploration")
    binary = C.build()
    work = C.fresh_dir(C.WORK / PID)
    depth = 3 if tier == "quick" else 5
    cases, g = gen.run_generator("GenFail", work / "gen", dict(MaxDepth=depth), timeout=2400)
    rnd = random.Random(rep.seed)
    total = len(cases)
    if tier == "thorough" and len(cases) > 40000:
        cases = rnd.sample(cases, 40000)
    for c in cases:
        c["id"] = f"{c['kind']}/{c['pos']}/{'>'.join(c['chain']) or 'module'}/split={c['split']}"
        c["judge_trace"] = True
    cases.sort(key=lambda c: c["id"])
    C.log(f"[{PID}] {len(cases)} failing programs (of {total})")
    dis, skips, st = l1.run_cases(binary, work, cases)
    # the compiled code on the value machine MSVMV: per-instruction trace validation of the interpreter and
    # translation validation of the compiler against MSLang (programs outside the machine's fragment are counted)
    import random as _random
    vres = vmv.stage(binary, work / "vmv", cases, 700 if tier == "quick" else 7000, _random.Random(rep.seed))
    vcov = vmv.report(rep, vres, "failing program")
    byid = {c["id"]: c for c in cases}
    for c in cases:
        if c["rejected"]:
            rep.violation(f"compiler-rejects {c['id']}", f"program rejected: {c['obs'][0]['diag'][-600:]}", dict(case=c["id"], files=c["files"]))
    for d in dis:
        c = byid[d["id"]]
        o = next(x for x in c["obs"] if x["path"] == d["path"])
        site = ""
        if o["panic"]:
            import re
            m = re.search(r"panicked at ([^\n:]+):\d+", o["err"])
            site = "panic@" + (m.group(1) if m else "?") + " "
        rep.violation(f"{site}{d['path']} {d['id']}",
                      f"{d['path']}: {d['id']}: model prescribes class={d['exp_status']} out={d['exp_out']} active={d['exp_trace']}; real binary exit={d['obs_exit']} banner={d['obs_banner']} class={d['obs_fclass']} out={d['obs_out']} trace={d['obs_trace']}",
                      dict(case=c["id"], verdict=d, files=c["files"], stderr=[x["err"] for x in c["obs"]]))
    kinds = {}
    for c in cases:
        kinds[c["kind"]] = kinds.get(c["kind"], 0) + 1
    rep.coverage = dict(**vcov, traces_validated_against_impl=vres["recorded"],
        evaluations=len(cases), distinct_nontrivial=sum(1 for c in cases if len(c["chain"]) >= 1),
        rule=f"GenFail.tla BFS: 7 failure kinds x 3 positions x every chain of <= {depth} activations over function/method/list-callback/self-recursive function (three open activations, plain and tail recursion) x every split point into an imported module; non-trivial = failure below at least one call",
        exhaustive=(len(cases) == total), per_kind=kinds, out_of_model=len(skips),
        samples=[dict(id=c["id"], trace=c["obs"][0]["trace"], out=c["obs"][0]["out"]) for c in cases[:: max(1, len(cases) // 3)][:3]],
        states=st["states"] + vres["states"] + g.distinct, transitions=st["transitions"] + vres["transitions"] + g.generated, executions=2 * len(cases),
    )
    rep.assumptions = ["trace entries are compared structurally: kind (module / function / Class::method), file, method name, and the equality pattern between function entries; block markers and a native-code entry are ignored",
                       "string index out of range is the 'key/range' representative of built-in range errors"]
    return rep.finish()
