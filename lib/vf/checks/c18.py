"""C18 raw-text -> transpile -> execute equals run (spec/MSCodec.tla, GenCodec.tla, CheckCodec.tla)."""
from .. import codec


def run(tier, replay=None):
    return codec.run_check("C18", tier, want_text=True)
