"""C06 compile-time constant folding agrees with run-time evaluation.

GenExpr.tla enumerates expression trees over numeric literals of the four kinds; each tree is
rendered folded (literals in place) and unfolded (every literal reaches the expression through
a variable); MSNum.tla gives the value/kind both must yield or says both must fail (the folded
one at compile time); CheckFold.tla (TLC) judges the three-way agreement.
"""
import json
import random
import struct
import threading

from .. import common as C
from .. import corpus, gen, numref

PID = "C06"
KINDMAP = {"Int": "int", "BigInt": "bigint", "Byte": "byte", "Float": "float", "Bool": "bool", "Nil": "nil"}


def text(t, leaf):
    k = t["k"]
    if k == "lit":
        return leaf(t)
    if k == "nil":
        return "nil"
    if k == "neg":
        return f"(-{text(t['e'], leaf)})"
    if k == "get":
        return f"(get {text(t['e'], leaf)})"
    if k == "or":
        return f"(({text(t['e'], leaf)}) or {text(t['d'], leaf)})"
    if k == "bin":
        return f"({text(t['l'], leaf)} {t['op']} {text(t['r'], leaf)})"
    if k == "one":
        return text(t["e"], leaf)
    if k == "list2":
        return f"[{text(t['l'], leaf)}, {text(t['r'], leaf)}]"
    raise ValueError(k)


def render(tree):
    folded = 'print "go"\nprint ' + text(tree, lambda l: l["src"]) + "\n"
    decls = []

    def leaf(l):
        decls.append(f"v{len(decls) + 1} = {l['src']}")
        return f"v{len(decls)}"
    body = text(tree, leaf)
    unfolded = "\n".join(decls) + '\nprint "go"\nprint ' + body + "\n"
    return folded, unfolded


def render_mixed(tree):
    """the two half-folded renderings: literals at odd (resp. even) leaf positions go through variables, the others stay"""
    out = []
    for parity in (0, 1):
        decls, pos = [], [0]

        def leaf(l):
            pos[0] += 1
            if pos[0] % 2 == parity:
                return l["src"]
            decls.append(f"v{len(decls) + 1} = {l['src']}")
            return f"v{len(decls)}"
        body = text(tree, leaf)
        out.append("\n".join(decls) + ('\n' if decls else '') + 'print "go"\nprint ' + body + "\n")
    return out


def scalar(kind, txt, bits=None):
    k = KINDMAP.get(kind, kind)
    if k == "float":
        x = struct.unpack(">d", bytes.fromhex(bits))[0] if bits else float(txt)
        return numref.fjson(x)
    if k == "byte":
        return dict(kind="byte", dec=str(int(txt[2:], 2)))
    if k in ("int", "bigint"):
        return dict(kind=k, dec=txt)
    if k == "bool":
        return dict(kind="bool", dec="1" if txt == "true" else "0")
    return dict(kind=k, dec="0")


def observe(binary, root, src):
    d = root / f"slot{threading.get_ident()}"
    d.mkdir(exist_ok=True)
    (d / "main.ms").write_text(src)
    tr = d / "t.ndjson"
    if tr.exists():
        tr.unlink()
    r = C.run_proc([binary, "run", "main.ms", "-q"], cwd=d, timeout=10, env=dict(MSCRIPT_VERIF_TRACE=str(tr), MSCRIPT_VERIF_TRACE_INS="0"))
    ev = [e for e in corpus.read_ndjson(tr) if e.get("e") == "print"]
    err = C.strip_ansi(r["err"])
    ob = dict(exit=r["exit"], err=err[-300:], diag=C.strip_ansi(r["out"])[-300:], val=dict(kind="none", dec="0"), vals=[])
    if r["timeout"]:
        ob["status"] = "timeout"
    elif "Did not compile" in err or (r["exit"] == 101 and "panicked at compiler" in err):
        ob["status"] = "reject"
    elif r["exit"] != 0:
        ob["status"] = "fail"
    elif len(ev) >= 2:
        e = ev[-1]
        ob["status"] = "ok"
        if e["kind"].startswith("Vector<"):
            kinds = e["kind"][7:-1].split(",") if e["kind"] != "Vector<>" else []
            parts = e["text"][1:-1].split(", ") if e["text"] != "[]" else []
            if len(kinds) == len(parts):
                ob["vals"] = [scalar(k, p) for k, p in zip(kinds, parts)]
        else:
            ob["val"] = scalar(e["kind"], e["text"], e.get("bits"))
    else:
        ob["status"] = "fail"
    return ob


def erase_kinds(src):
    """the text of a folded expression with the kind marks of its literals removed (B5 / 0b101 / 5f / 5.0 -> 5): expressions that
    differ only in the kinds of their literals become neighbours in a batch"""
    import re
    src = re.sub(r"0b([01]+)", lambda m: str(int(m.group(1), 2)), src)
    src = re.sub(r"\bB(\d)", r"\1", src)
    src = re.sub(r"(\d)f\b", r"\1", src)
    return re.sub(r"(\d)\.0\b", r"\1", src)


def observe_batch(binary, root, exprs):
    """many folded expressions in one compilation unit, one print each; returns one observation per expression"""
    d = root / f"slot{threading.get_ident()}"
    d.mkdir(exist_ok=True)
    src = 'print "go"\n' + "".join(f"print {e}\n" for e in exprs)
    (d / "main.ms").write_text(src)
    tr = d / "t.ndjson"
    if tr.exists():
        tr.unlink()
    r = C.run_proc([binary, "run", "main.ms", "-q"], cwd=d, timeout=20, env=dict(MSCRIPT_VERIF_TRACE=str(tr), MSCRIPT_VERIF_TRACE_INS="0"))
    ev = [e for e in corpus.read_ndjson(tr) if e.get("e") == "print"]
    err = C.strip_ansi(r["err"])
    status = "timeout" if r["timeout"] else "reject" if ("Did not compile" in err or (r["exit"] == 101 and "panicked at compiler" in err)) else "ok"
    out = []
    for k in range(len(exprs)):
        ob = dict(exit=r["exit"], err=err[-300:], diag=C.strip_ansi(r["out"])[-300:], val=dict(kind="none", dec="0"), vals=[], status=status)
        if status == "ok":
            if k + 1 < len(ev) and not ev[k + 1]["kind"].startswith("Vector<"):
                ob["val"] = scalar(ev[k + 1]["kind"], ev[k + 1]["text"], ev[k + 1].get("bits"))
            else:
                ob["status"] = "fail"
        out.append(ob)
    return src, out


def run(tier, replay=None):
    rep = C.Report(PID, tier, "translation_validation")
    binary = C.build()
    work = C.fresh_dir(C.WORK / PID)
    rnd = random.Random(rep.seed)
    key = lambda c: " ".join(c["toks"])
    d1, g1 = gen.run_generator("GenExpr", work / "gen1", dict(MaxDepth=2, LitIdx=("QuickLits" if tier == "quick" else "AllLits")), timeout=2400)
    sim, g2 = gen.run_generator("GenExpr", work / "sim", dict(MaxDepth=4, LitIdx="AllLits"), simulate=(4000 if tier == "quick" else 60000),
                                depth=40, seed=rep.seed, timeout=(60 if tier == "quick" else 600))
    d1 = gen.dedupe(d1, key)
    sim = [c for c in gen.dedupe(sim, key) if len(c["toks"]) > 4]
    b = 2500 if tier == "quick" else 60000
    if len(sim) > b:
        sim = rnd.sample(sim, b)
    cases = gen.dedupe(d1 + sim, key)
    for c in cases:
        c["id"] = key(c)
    C.log(f"[{PID}] {len(d1)} trees with one operator level (all), {len(sim)} simulated deeper trees")
    root = C.fresh_dir(work / "slots")

    def one(c):
        f, u = render(c["tree"])
        c["folded_src"], c["unfolded_src"] = f, u
        c["folded"], c["unfolded"] = observe(binary, root, f), observe(binary, root, u)
        c["mixed_src"] = [s for s in dict.fromkeys(render_mixed(c["tree"])) if s not in (f, u)] if c["tree"]["k"] != "list2" else []
        c["mixed"] = [observe(binary, root, s) for s in c["mixed_src"]]
        return c
    C.pmap(one, cases)
    # ---- batched rendering: the folded text of many trees in ONE compilation unit (what the compiler folds must not depend on
    # what else it has folded): neighbours differ only in the kinds of their literals, in both orders; judged like a mixed rendering
    elig = sorted((c for c in cases if c["tree"]["k"] != "list2" and c["folded"]["status"] == "ok"),
                  key=lambda c: (erase_kinds(c["folded_src"].split("\n")[1]), c["id"]))
    BS = 40
    batches = [elig[k:k + BS] for k in range(0, len(elig), BS)]
    batches += [list(reversed(b)) for b in batches]

    def batch(b):
        src, obs = observe_batch(binary, root, [c["folded_src"].split("\n")[1][len("print "):] for c in b])
        return b, src, obs
    nb = 0
    for b, src, obs in C.pmap(batch, batches):
        for c, o in zip(b, obs):
            c["mixed"].append(o)
            c["mixed_src"].append(src)
            nb += 1
    slim = lambda o: dict(status=o["status"], val=o["val"], vals=o["vals"])
    fcs = work / "cases.ndjson"
    C.write_ndjson(fcs, [dict(id=c["id"], tree=c["tree"], folded=slim(c["folded"]), unfolded=slim(c["unfolded"]), mixed=[slim(o) for o in c["mixed"]]) for c in cases])
    r = C.tlc("CheckFold", "CheckFold", work / "judge", env=dict(CASES=str(fcs)), workers=12, timeout=3000, heap_mb=10000)
    if r.error or r.invariant_violated:
        raise C.ToolError(f"CheckFold: {r.error or r.invariant_violated}")
    if r.distinct != len(cases):
        raise C.ToolError(f"CheckFold judged {r.distinct} of {len(cases)}")
    byid = {c["id"]: c for c in cases}
    for d in r.prints.get("DISAGREE", []):
        c = byid[d["id"]]
        fo, un = c["folded"], c["unfolded"]
        rep.violation(d["id"], f"tree [{d['id']}]: specification prescribes {d['expected']}; folded rendering: {fo['status']} {(fo['vals'] or fo['val']) if fo['status']=='ok' else (fo['diag'] or fo['err'])[-140:]!r}; unfolded rendering: {un['status']} {(un['vals'] or un['val']) if un['status']=='ok' else (un['diag'] or un['err'])[-140:]!r}",
                      dict(case=c["id"], expected=d["expected"], folded=fo, unfolded=un, mixed=c["mixed"], files={"folded.ms": c["folded_src"], "unfolded.ms": c["unfolded_src"], **{f"mixed{k}.ms": s for k, s in enumerate(c["mixed_src"])}}))
    skips = len(r.prints.get("SKIP", []))
    # ---- the unfolded renderings one level down: every instruction of the run (make_bigint / make_byte / make_float, bin_op and
    # neg on the numeric tower, with the value on top of the operand stack after each) must be a step of the value machine MSVMV
    from .. import vmv
    vpool = [dict(id=c["id"], src=c["unfolded_src"]) for c in cases if c["unfolded"]["status"] in ("ok", "fail")]
    vres = vmv.stage(binary, work / "vmv", vpool, 600 if tier == "quick" else 8000, random.Random(rep.seed))
    vcov = vmv.report(rep, vres, "unfolded expression tree")
    rep.coverage = dict(**vcov, traces_validated_against_impl=vres["recorded"],
        programs=2 * len(cases) + sum(len(c["mixed"]) for c in cases), mixed_renderings=sum(len(c["mixed"]) for c in cases), batched_renderings=nb, batches=len(batches), disagreements_checked=len(r.prints.get("DISAGREE", [])), trees=len(cases), out_of_model_or_ill_typed=skips,
        states=r.distinct + g1.distinct + vres["states"], transitions=r.generated + g1.generated + vres["transitions"],
        evaluations=len(cases), distinct_nontrivial=len(cases) - skips,
        rule="GenExpr.tla: every tree with at most one operator level over the literal set (quick: 10 literals, thorough: 27) x {+ - * / % << >> & | xor, unary minus, get, or} incl. two-element lists, plus seeded -simulate trees up to depth 3 below the root; each rendered folded, unfolded and half-folded (every other literal through a variable, both parities); every tree whose folded rendering compiles is also compiled in batches of 40 folded expressions per compilation unit, neighbours differing only in the kinds of their literals, in both orders",
        samples=[dict(tree=c["id"], folded=c["folded_src"].split("\n")[1], unfolded_status=c["unfolded"]["status"], value=c["unfolded"]["val"]) for c in cases[:: max(1, len(cases) // 3)][:3]],
    )
    rep.assumptions = ["literals are non-negative; a sign is an operator node in both renderings", "MSNum self-tested against an independent reference (see C05)",
                       "ill-typed trees (float with bitwise operators, operators on nil) and float results outside the normal range are skipped"]
    return rep.finish()
