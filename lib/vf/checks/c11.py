"""C11 modules initialise exactly once, in import order, and share one instance.

GenMod.tla enumerates import DAGs (forms, path spellings, placements); MSLang.tla (RunProject)
prescribes the output; the real binary runs every project in memory (`run`) and from files
(`compile`+`execute`); CheckLang.tla judges; MSModules.tla/TraceMod.tla validate the hook-H3
module events of every execution (cache hit/miss, one top-level run per module, done before
the importer continues).
"""
import json
import random

from .. import common as C
from .. import gen, l1, vmv

PID = "C11"


def run(tier, replay=None):
    rep = C.Report(PID, tier, "model_checking")
    binary = C.build()
    work = C.fresh_dir(C.WORK / PID)
    rnd = random.Random(rep.seed)
    small, g1 = gen.run_generator("GenMod", work / "gen3", dict(MaxMods=3))
    four, g4 = gen.run_generator("GenMod", work / "gen4", cfg="GenMod4", timeout=1200)
    if tier == "quick" and len(four) > 1500:
        four = rnd.sample(four, 1500)
    # sub-directory layouts (modules k..n in `sub/`): every DAG over <= 3 modules x import form x spelling x layout
    lay, gl = gen.run_generator("GenMod", work / "genl", cfg="GenModL", timeout=1200)
    lay = [c for c in lay if c["lay"] != 0]
    if tier == "quick" and len(lay) > 1500:
        lay = rnd.sample(lay, 1500)
    # a second import of the shared module in the same file, after its state has changed (both forms), <= 3 modules
    again, ga = gen.run_generator("GenMod", work / "gena", dict(MaxMods=3), cfg="GenModA", timeout=1200)
    if tier == "quick" and len(again) > 1500:
        again = rnd.sample(again, 1500)
    cases = small + four + lay + again
    for c in cases:
        c["id"] = (f"sub>={c['lay']} " if c.get("lay") else "") + (f"again={c['again']} " if c.get("again", "none") != "none" else "") + f"n={c['n']} bare={[k + 1 for k, b in enumerate(c['bare']) if b]} " + " ".join(f"{e['i']}>{e['j']}:{e['form'][0]}{e['spell'][0]}{e['place'][0]}" for e in c["edges"])
    cases = gen.dedupe(cases, lambda c: c["id"])
    C.log(f"[{PID}] {len(cases)} projects")
    dis, skips, st = l1.run_cases(binary, work, cases, trace=True)
    byid = {c["id"]: c for c in cases}
    for c in cases:
        if c["rejected"]:
            rep.violation(f"compiler-rejects {c['id']}", f"project rejected by the compiler: {c['obs'][0]['diag'][-500:]}",
                          dict(case=c["id"], files=c["files"]))
    for d in dis:
        c = byid[d["id"]]
        twice = any(e["spell"] == "dotslash" for e in c["edges"]) and len({e["spell"] for e in c["edges"] if e["j"] in {x["j"] for x in c["edges"] if x["spell"] == "dotslash"}}) > 1
        rep.violation(("spelling-alias " if twice else "") + f"{d['path']} {d['id']}",
                      f"{d['path']}: project {d['id']}: semantics prescribes {d['exp_out']} ({d['exp_status']}); real binary {d['obs_out']} exit={d['obs_exit']} {d['obs_fclass']}",
                      dict(case=c["id"], verdict=d, files=c["files"], stderr=[o["err"] for o in c["obs"]]))
    # the compiled projects on the value machine MSVMV (module_entry / export tables / split_lookup_store):
    # per-instruction trace validation of the interpreter and translation validation against MSLang!RunProject
    vres = vmv.stage(binary, work / "vmv", cases, 500 if tier == "quick" else 5000, rnd)
    vcov = vmv.report(rep, vres, "module project")
    # trace validation of the loader
    traces = []
    for c in cases:
        if c["rejected"]:
            continue
        for o in c["obs"]:
            if o["events"]:
                entry = next((e["fn"] for e in o["events"] if e.get("e") == "enter"), "")
                evs = []
                for e in o["events"]:
                    k = e.get("e")
                    if k == "module_entry":
                        evs.append(dict(e=k, path=e["path"], hit=bool(e["hit"]), fn=""))
                    elif k == "module_done":
                        evs.append(dict(e=k, path=e["path"], hit=False, fn=""))
                    elif k == "enter":
                        evs.append(dict(e=k, path="", hit=False, fn=e["fn"]))
                traces.append(dict(id=f"{o['path']} {c['id']}", entry=entry, events=evs))
    C.write_ndjson(work / "traces.ndjson", traces)
    tv = C.tlc("TraceMod", "TraceMod", work / "tracemod", env=dict(TRACES=str(work / "traces.ndjson")), workers=8, timeout=1500)
    if tv.error or tv.invariant_violated:
        raise C.ToolError(f"TraceMod: {tv.error or tv.invariant_violated}")
    acc = {a["id"] for a in tv.prints.get("ACCEPT", [])}
    broken = {b["id"]: b for b in tv.prints.get("BROKEN", [])}
    stuck = {s["id"]: s for s in tv.prints.get("STUCK", [])}
    for t in traces:
        if t["id"] in broken or t["id"] not in acc:
            info = broken.get(t["id"]) or stuck.get(t["id"]) or {}
            cid = t["id"].split(" ", 1)[1]
            c = byid[cid]
            alias = any(e["spell"] == "dotslash" for e in c["edges"])
            rep.violation(("spelling-alias " if alias else "") + f"loader-trace {t['id']}",
                          f"module events of {t['id']} are not a behaviour of MSModules / break its invariants: {info}",
                          dict(case=cid, files=c["files"], model=info, events=t["events"]))
    rep.coverage = dict(**vcov, 
        states=st["states"] + g1.distinct + tv.distinct, transitions=st["transitions"] + g1.generated + tv.generated,
        traces_validated_against_impl=len(traces), traces_accepted=len(acc), programs=len(cases), executions=2 * len(cases),
        evaluations=len(cases), distinct_nontrivial=sum(1 for c in cases if len(c["edges"]) >= 2),
        rule="GenMod.tla: (a) every import DAG over 4 modules with plain spelling and early placement (quick: seeded sample of 1500) and (b) every import DAG over <= 3 modules (entry .. shared counter module) x import form per edge x path spelling (m / ./m) x placement of each import before/after the importer's first side effect and (c) the DAGs over <= 3 modules with a second import of the shared module (by name / as a module) in every importer after its state has changed; non-trivial = at least two import edges",
        exhaustive=True, out_of_model=len(skips),
        samples=[dict(id=c["id"], out=c["obs"][0]["out"]) for c in cases[:: max(1, len(cases) // 3)][:3]],
    )
    rep.assumptions = ["modules are identified by their lexically normalised path (./m == m)", "H3 hook reports cache hit/miss at the point the interpreter decides"]
    return rep.finish()
