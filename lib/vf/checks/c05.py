"""C05 numeric operators yield the exact value and the promoted kind, or fail.

MSNum.tla is the exact numeric tower (limb arithmetic for i32/i128/u8, IEEE-754 binary64 by
integer arithmetic); GenNum.tla enumerates operator x kind pair x boundary-value pairs;
operands reach the operator through variables at run time; CheckNum.tla (TLC) compares the
kind and the exact value observed through the typed-print hook.
"""
import json
import random

from .. import common as C
from .. import gen, numcases, numref, corpus

PID = "C05"

PARSE = {"int": "parse_int", "bigint": "parse_bigint", "byte": "parse_byte", "float": "parse_float"}
KINDMAP = {"Int": "int", "BigInt": "bigint", "Byte": "byte", "Float": "float", "Bool": "bool"}


def operand_src(v):
    if v["kind"] == "float":
        txt = v["txt"]
        return f'(get "{txt}".parse_float())'
    if v["kind"] == "byte":
        return f'(get "0b{int(v["dec"]):b}".parse_byte())' if False else f'(get "{v["dec"]}".parse_byte())'
    return f'(get "{v["dec"]}".{PARSE[v["kind"]]}())'


TYNAME = {"int": "int", "bigint": "bigint", "byte": "byte", "float": "float"}


def holder_mode(c):
    """where the operands live when the operator reads them: 0 variables, 1 left operand in a list element,
    2 right operand in an object field, 3 both in list elements (a deterministic rotation over the cases)"""
    import zlib
    return zlib.crc32(case_id(c).encode()) % 4


def program(c):
    mode = holder_mode(c)
    a = operand_src(c["a"])
    lines = [f"a0 = {a}"]
    unary = c["op"] == "neg"
    if not unary:
        lines.append(f"b0 = {operand_src(c['b'])}")
    ea, eb = "a0", "b0"
    if mode in (1, 3):
        lines += [f"la: [{TYNAME[c['a']['kind']]}...] = [a0]", "k0 = 0"]
        ea = "la[k0]"
    if not unary and mode == 3:
        lines += [f"lb: [{TYNAME[c['b']['kind']]}...] = [b0]"]
        eb = "lb[k0]"
    if mode == 2:
        who = "a" if unary else "b"
        kind = c[who]["kind"]
        lines += ["class Hold {", f"\tf: {TYNAME[kind]}", f"\tconstructor(self, f: {TYNAME[kind]}) {{", "\t\tself.f = f", "\t}", "}", f"hd = Hold({who}0)"]
        if unary:
            ea = "hd.f"
        else:
            eb = "hd.f"
    lines.append('print "go"')
    expr = f"(-{ea})" if unary else f"({ea} {c['op']} {eb})"
    lines.append(f"r = {expr}")
    # the operand slots are read again after the operator ran
    lines.append(f"print ({ea}) == a0")
    if not unary:
        lines.append(f"print ({eb}) == b0")
    lines.append("print r")
    return "\n".join(lines) + "\n"


def observe(binary, root, c):
    import threading
    d = root / f"slot{threading.get_ident()}"
    d.mkdir(exist_ok=True)
    (d / "main.ms").write_text(program(c))
    tr = d / "t.ndjson"
    if tr.exists():
        tr.unlink()
    r = C.run_proc([binary, "run", "main.ms", "-q"], cwd=d, timeout=10, env=dict(MSCRIPT_VERIF_TRACE=str(tr), MSCRIPT_VERIF_TRACE_INS="0"))
    ev = [e for e in corpus.read_ndjson(tr) if e.get("e") == "print"]
    lines = r["out"].splitlines()
    reached = "go" in lines
    ob = dict(exit=r["exit"], reached=reached, err=C.strip_ansi(r["err"])[-400:], out=lines, intact=True)
    if r["timeout"]:
        ob["status"] = "timeout"
    elif r["exit"] == 0 and len(ev) >= 2:
        e = ev[-1]
        k = KINDMAP.get(e["kind"], e["kind"])
        if k == "float":
            import struct
            x = struct.unpack(">d", bytes.fromhex(e["bits"]))[0]
            val = numref.fjson(x)
        elif k == "bool":
            val = dict(kind="bool", b=e["text"] == "true")
        elif k == "byte":
            val = dict(kind="byte", dec=str(int(e["text"][2:], 2)))
        else:
            val = dict(kind=k, dec=e["text"])
        ob["status"], ob["val"] = "ok", val
        ob["intact"] = all(x["text"] == "true" for x in ev[1:-1])
    elif r["exit"] != 0 and reached:
        ob["status"], ob["val"] = "fail", dict(kind="none")
    else:
        ob["status"], ob["val"] = "setup", dict(kind="none")     # compile error or operand construction failed
    return ob


def case_id(c):
    def v(x):
        return x["kind"] + ":" + (x["txt"] if x["kind"] == "float" else x["dec"])
    return f"{c['op']} {v(c['a'])} {v(c['b'])}" if c["op"] != "neg" else f"neg {v(c['a'])}"


def run(tier, replay=None):
    rep = C.Report(PID, tier, "exploration")
    binary = C.build()
    work = C.fresh_dir(C.WORK / PID)
    cases, g = gen.run_generator("GenNum", work / "gen", dict(Full=("TRUE" if tier == "thorough" else "FALSE")), timeout=2400)
    for c in cases:
        c["id"] = case_id(c)
    cases.sort(key=lambda c: c["id"])
    root = C.fresh_dir(work / "slots")
    obs = C.pmap(lambda c: observe(binary, root, c), cases)
    judged, setup = [], 0
    for c, o in zip(cases, obs):
        c["obs"] = o
        if o["status"] in ("setup", "timeout"):
            setup += 1
        else:
            judged.append(c)
    f = work / "cases.ndjson"
    C.write_ndjson(f, [dict(id=c["id"], op=c["op"], a=c["a"], b=c["b"], obs=dict(status=c["obs"]["status"], val=c["obs"]["val"], intact=bool(c["obs"].get("intact", True)))) for c in judged])
    r = C.tlc("CheckNum", "CheckNum", work / "judge", env=dict(CASES=str(f)), workers=12, timeout=3000, heap_mb=10000)
    if r.error or r.invariant_violated:
        raise C.ToolError(f"CheckNum: {r.error or r.invariant_violated}")
    if r.distinct != len(judged):
        raise C.ToolError(f"CheckNum judged {r.distinct} of {len(judged)}")
    byid = {c["id"]: c for c in cases}
    for d in r.prints.get("DISAGREE", []):
        c = byid[d["id"]]
        o = c["obs"]
        rep.violation(d["id"], f"{d['id']}: specification prescribes {d['expected']} ({d['why']}); real binary: status={o['status']} value={o.get('val')} exit={o['exit']} {o['err'][-160:]!r}",
                      dict(case=c["id"], expected=d["expected"], observed=o, files={"main.ms": program(c)}))
    # statically rejected combinations (e.g. float with bitwise operators) are not run-time cases
    rep.coverage = dict(
        evaluations=len(cases), distinct_nontrivial=len(judged), not_executable=setup, out_of_model=len(r.prints.get("SKIP", [])),
        rule="GenNum.tla: 16 binary operators x 4x4 kind pairs x all pairs from the per-kind boundary sets (quick: 4-6 values per kind, thorough: 9-20), plus unary minus; operands built at run time through parse_*; non-trivial = accepted by the compiler and executed up to the operator",
        exhaustive=True, states=r.distinct + g.distinct, transitions=r.generated + g.generated,
        samples=[dict(id=c["id"], observed=c["obs"].get("val"), status=c["obs"]["status"]) for c in judged[:: max(1, len(judged) // 4)][:4]],
        observed_failures=sum(1 for c in judged if c["obs"]["status"] == "fail"),
    )
    rep.assumptions = ["MSNum.tla agrees with an independent big-integer / IEEE reference on 9k cases (bin/check C05 --selftest in DESIGN 9)",
                       "float results outside the normal range (subnormal, inf, nan) are out of model and not judged",
                       "shifts and bitwise operators act on the two's-complement pattern of the promoted kind; only the shift amount has a range",
                       "a panic counts as a failure here (C17 judges panics)"]
    return rep.finish()
