"""C04 `run` and `compile`+`execute` are observationally equivalent (spec/MSCodec.tla, GenCodec.tla, CheckCodec.tla)."""
from .. import codec


def run(tier, replay=None):
    return codec.run_check("C04", tier, want_text=False)
