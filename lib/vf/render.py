"""Pretty printer: program AST (DESIGN.md appendix A, as produced by the Gen*.tla specs) -> MScript source.
Pure syntax; every binary expression is parenthesised so no precedence knowledge is needed."""


def esc(s):
    out = []
    for ch in s:
        if ch == '"':
            out.append('\\"')
        elif ch == "\\":
            out.append("\\\\")
        elif ch == "\n":
            out.append("\\n")
        elif ch == "\r":
            out.append("\\r")
        else:
            out.append(ch)
    return "".join(out)


def expr(e):
    k = e["k"]
    if k == "int":
        v = e["v"]
        return str(v) if v >= 0 else f"(-{-v})"
    if k == "bigint":
        return "B" + str(e["v"])
    if k == "byte":
        return "0b" + format(int(e["v"]), "b")
    if k == "float":
        return e["v"]
    if k == "bool":
        return "true" if e["v"] else "false"
    if k == "str":
        return '"' + esc(e["v"]) + '"'
    if k == "rawstr":          # source text of the literal given verbatim
        return '"' + e["v"] + '"'
    if k == "paren":
        return "(" + expr(e["e"]) + ")"
    if k == "nil":
        return "nil"
    if k == "var":
        return e["n"]
    if k == "self":
        return "self"
    if k == "neg":
        return f"(-{expr(e['e'])})"
    if k == "not":
        return f"(!{expr(e['e'])})"
    if k == "bin":
        op = e["op"]
        if op in ("is", "xor"):
            return f"({expr(e['l'])} {op} {expr(e['r'])})"
        return f"({expr(e['l'])} {op} {expr(e['r'])})"
    if k == "list":
        return "[" + ", ".join(expr(x) for x in e["es"]) + "]"
    if k == "map":
        body = ", ".join(f"{expr(kv['key'])}: {expr(kv['val'])}" for kv in e["kvs"])
        return f"map[{e['kt']}, {e['vt']}]" + (" {" + body + "}" if (e["kvs"] or e.get("braces", True)) else "")
    if k == "idx":
        return f"{expr(e['o'])}[{expr(e['i'])}]"
    if k == "call":
        f = expr(e["f"])
        if e["f"]["k"] not in ("var", "self", "fld", "call", "idx"):
            f = f"({f})"
        return f + "(" + ", ".join(expr(a) for a in e["args"]) + ")"
    if k == "mcall":
        o = expr(e["o"])
        if e["o"]["k"] in ("int", "neg", "bin", "fn", "float", "bigint", "byte", "str") or (e["o"]["k"] == "int" and e["o"]["v"] < 0):
            o = f"({o})"
        return o + "." + e["m"] + "(" + ", ".join(expr(a) for a in e["args"]) + ")"
    if k == "fld":
        return f"{expr(e['o'])}.{e['n']}"
    if k == "fn":
        ps = ", ".join(p["n"] + (": " + p["ty"] if p.get("ty") else "") for p in e["ps"])
        rt = f" -> {e['rt']}" if e.get("rt") else ""
        return f"fn({ps}){rt} {{\n" + block(e["b"], e.get("_ind", 1)) + "\t" * (e.get("_ind", 1) - 1) + "}"
    if k == "get":
        return f"(get {expr(e['e'])})"
    if k == "or":
        return f"(({expr(e['e'])}) or {expr(e['d'])})"
    if k == "unwrapinto":
        return f"({e['n']} ?= {expr(e['e'])})"
    if k == "typeof":
        return f"(typeof {expr(e['e'])})"
    if k == "new":
        return e["cls"] + "(" + ", ".join(expr(a) for a in e["args"]) + ")"
    raise ValueError("expr kind " + k)


def _indent_fns(node, ind):
    """record the indentation level inside function literals so their bodies print nicely"""
    if isinstance(node, dict):
        if node.get("k") == "fn":
            node["_ind"] = ind + 1
            for s in node["b"]:
                _indent_fns(s, ind + 1)
            return
        for key, v in node.items():
            if key in ("t", "e", "b") and isinstance(v, list) and node.get("k") in ("if", "while", "from"):
                for s in v:
                    _indent_fns(s, ind + 1)
            else:
                _indent_fns(v, ind)
    elif isinstance(node, list):
        for x in node:
            _indent_fns(x, ind)


def lvalue(t):
    if t["k"] == "var":
        return t["n"]
    if t["k"] == "idx":
        return f"{expr(t['o'])}[{expr(t['i'])}]"
    if t["k"] == "fld":
        return f"{expr(t['o'])}.{t['n']}"
    raise ValueError("lvalue " + t["k"])


def stmt(s, ind):
    pad = "\t" * ind
    k = s["k"]
    if k == "let":
        flags = ""
        if s.get("const"):
            flags += "const "
        if s.get("export"):
            flags += "export "
        if s.get("mod"):
            flags += "modify "
        ty = f": {s['ty']}" if s.get("ty") else ""
        return f"{pad}{flags}{s['n']}{ty} = {expr(s['e'])}\n"
    if k == "unpack":
        return f"{pad}{'const ' if s.get('const') else ''}[{', '.join(s['ns'])}] = {expr(s['e'])}\n"
    if k == "assign":
        if s["op"] == "=":
            return f"{pad}{lvalue(s['target'])} = {expr(s['e'])}\n"
        return f"{pad}{lvalue(s['target'])} {s['op']}= {expr(s['e'])}\n"
    if k == "print":
        return f"{pad}print {expr(s['e'])}\n"
    if k == "assert":
        return f"{pad}assert {expr(s['e'])}\n"
    if k == "expr":
        if s["e"].get("k") == "get":      # a statement that starts with `(` would be read as a call of the previous line's value
            return f"{pad}get {expr(s['e']['e'])}\n"
        return f"{pad}{expr(s['e'])}\n"
    if k == "break":
        return f"{pad}break\n"
    if k == "continue":
        return f"{pad}continue\n"
    if k == "ret":
        return f"{pad}return {expr(s['e'][0])}\n" if s["e"] else f"{pad}return \n"
    if k == "if":
        if s.get("oneline"):       # `if c { stmt }` on one source line (single statement, no else)
            return f"{pad}if {expr(s['c'])} {{ {stmt(s['t'][0], 0).strip()} }}\n"
        out = f"{pad}if {expr(s['c'])} {{\n" + block(s["t"], ind + 1) + f"{pad}}}"
        if s.get("haselse"):
            el = s["e"]
            if len(el) == 1 and el[0]["k"] == "if" and s.get("elif"):
                out += " else " + stmt(el[0], ind).lstrip("\t")
                return out
            out += " else {\n" + block(el, ind + 1) + f"{pad}}}"
        return out + "\n"
    if k == "while":
        return f"{pad}while {expr(s['c'])} {{\n" + block(s["b"], ind + 1) + f"{pad}}}\n"
    if k == "from":
        word = "through" if s["incl"] else "to"
        step = f" step {expr(s['step'][0])}" if s["step"] else ""
        name = f", {s['n']}" if s["n"] else ""
        return f"{pad}from {expr(s['a'])} {word} {expr(s['z'])}{step}{name} {{\n" + block(s["b"], ind + 1) + f"{pad}}}\n"
    if k == "class":
        out = f"{pad}{'export ' if s.get('export') else ''}class {s['n']} {{\n"
        for f in s["fields"]:
            out += f"{pad}\t{'const ' if f.get('const') else ''}{f['n']}: {f['ty']}\n"
        for c in s["ctor"]:
            ps = ", ".join(["self"] + [p["n"] + ": " + p["ty"] for p in c["ps"]])
            out += f"{pad}\tconstructor({ps}) {{\n" + block(c["b"], ind + 2) + f"{pad}\t}}\n"
        for m in s["methods"]:
            ps = ", ".join(["self"] + [p["n"] + ": " + p["ty"] for p in m["ps"]])
            rt = f" -> {m['rt']}" if m.get("rt") else ""
            out += f"{pad}\tfn {m['n']}({ps}){rt} {{\n" + block(m["b"], ind + 2) + f"{pad}\t}}\n"
        return out + f"{pad}}}\n"
    if k == "import":
        if s["form"] == "mod":
            return f"{pad}import {s['path']}\n"
        if s["form"] == "type":
            return f"{pad}import {', '.join('type ' + n for n in s['names'])} from {s['path']}\n"
        return f"{pad}import {', '.join(s['names'])} from {s['path']}\n"
    if k == "alias":
        return f"{pad}{'export ' if s.get('export') else ''}type {s['n']} {s['ty']}\n"
    if k == "raw":
        return "".join(pad + line + "\n" for line in s["text"].split("\n"))
    raise ValueError("stmt kind " + k)


def block(ss, ind):
    return "".join(stmt(s, ind) for s in ss)


def program(body):
    _indent_fns(body, 0)
    return block(body, 0)
