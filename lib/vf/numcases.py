"""Boundary operand sets for the numeric checks (values only; which cases exist is decided by GenNum.tla)."""
import itertools
import random

from . import numref

INT = [-2**31, -2**31 + 1, -65537, -2, -1, 0, 1, 2, 3, 31, 32, 255, 256, 65536, 2**30, 2**31 - 2, 2**31 - 1]
BIG = [-2**127, -2**127 + 1, -2**64, -2**31 - 1, -1, 0, 1, 2, 127, 128, 2**31, 2**53 + 1, 2**63, 2**64, 2**126, 2**127 - 2, 2**127 - 1]
BYTE = [0, 1, 2, 7, 8, 127, 128, 254, 255]
FLOAT = [0.0, 0.5, 1.0, 1.5, 2.0, 3.0, -0.5, -1.0, -2.5, 0.1, 1e15, 9007199254740993.0, 2.0**31, 2.0**63, 1e308, 1.7976931348623157e308,
         2.2250738585072014e-308, 5e-324, -1e308, 4294967296.5]

OPS = ["+", "-", "*", "/", "%", "<<", ">>", "&", "|", "xor", "<", "<=", ">", ">=", "==", "!="]


def values(kind, small=False):
    v = {"int": INT, "bigint": BIG, "byte": BYTE, "float": FLOAT}[kind]
    if small:
        pick = {"int": [-2**31, -1, 0, 1, 31, 2**31 - 1], "bigint": [-2**127, -1, 0, 1, 2**64, 2**127 - 1],
                "byte": [0, 1, 8, 255], "float": [0.0, 0.5, -2.5, 1e308, 5e-324, 9007199254740993.0]}[kind]
        return pick
    return v


def jval(kind, x):
    return numref.fjson(x) if kind == "float" else numref.ijson(kind, x)


def selftest_cases(seed, n_random=1500):
    rnd = random.Random(seed)
    kinds = ["int", "bigint", "byte", "float"]
    cases = []
    for op in OPS:
        for ka, kb in itertools.product(kinds, kinds):
            for x in values(ka, small=True):
                for y in values(kb, small=True):
                    cases.append((op, jval(ka, x), jval(kb, y)))
    for _ in range(n_random):
        op = rnd.choice(OPS)
        ka, kb = rnd.choice(kinds), rnd.choice(kinds)

        def rv(k):
            if k == "int":
                return rnd.choice([rnd.randint(-2**31, 2**31 - 1), rnd.randint(-100, 100)])
            if k == "bigint":
                return rnd.choice([rnd.randint(-2**127, 2**127 - 1), rnd.randint(-2**40, 2**40)])
            if k == "byte":
                return rnd.randint(0, 255)
            return rnd.choice([rnd.uniform(-1e6, 1e6), rnd.uniform(-1, 1) * 10.0 ** rnd.randint(-300, 300), float(rnd.randint(-2**60, 2**60))])
        cases.append((op, jval(ka, rv(ka)), jval(kb, rv(kb))))
    out = []
    for n, (op, a, b) in enumerate(cases):
        ref = numref.arith(op, a, b)
        if ref["status"] == "skip":
            continue
        out.append(dict(id=f"{n}:{op}", op=op, a=a, b=b, obs=dict(status=ref["status"], val=ref.get("val", dict(kind="none")))))
    return out
