"""Reference calculator used ONLY to self-test spec/MSNum.tla (never to judge the implementation):
Python integers are exact and Python floats are IEEE-754 binary64."""
import math
import struct

RANGE = {"int": (-2**31, 2**31 - 1), "bigint": (-2**127, 2**127 - 1), "byte": (0, 255)}
WIDTH = {"int": 32, "bigint": 128, "byte": 8}


def promote(k1, k2):
    if "float" in (k1, k2):
        return "float"
    if k1 == k2:
        return k1
    if k1 == "byte":
        return k2
    if k2 == "byte":
        return k1
    return "bigint"


def fjson(x):
    if math.isnan(x):
        return dict(kind="float", cls="nan", neg=False, m="0", e=0)
    if math.isinf(x):
        return dict(kind="float", cls="inf", neg=x < 0, m="0", e=0)
    neg = math.copysign(1.0, x) < 0
    if x == 0:
        return dict(kind="float", cls="fin", neg=neg, m="0", e=0)
    m, e = math.frexp(abs(x))
    mi = int(m * (1 << 53))
    return dict(kind="float", cls="fin", neg=neg, m=str(mi), e=e - 53)


def ijson(kind, z):
    return dict(kind=kind, dec=str(z))


def val(j):
    if j["kind"] == "float":
        if j["cls"] != "fin":
            return float("nan") if j["cls"] == "nan" else (-math.inf if j["neg"] else math.inf)
        x = math.ldexp(int(j["m"]), j["e"])
        return -x if j["neg"] else x
    return int(j["dec"])


def trunc_div(a, b):
    q = abs(a) // abs(b)
    return -q if (a < 0) != (b < 0) else q


def normal(x):
    return x == 0 or (2.0 ** -1022 <= abs(x) <= 1.7976931348623157e308)


def arith(op, a, b):
    """returns dict(status ok|fail|skip, val)"""
    ka, kb = a["kind"], b["kind"]
    k = promote(ka, kb)
    x, y = val(a), val(b)
    if op in ("<", "<=", ">", ">=", "==", "!="):
        if k == "float":
            x, y = float(x), float(y)
        r = {"<": x < y, "<=": x <= y, ">": x > y, ">=": x >= y, "==": x == y, "!=": x != y}[op]
        return dict(status="ok", val=dict(kind="bool", b=r))
    if op in ("<<", ">>"):
        if k == "float":
            return dict(status="fail")
        w = WIDTH[k]
        if not (0 <= y < w):
            return dict(status="fail")
        u = x & ((1 << w) - 1)
        if op == "<<":
            u = (u << y) & ((1 << w) - 1)
        else:
            if k != "byte" and x < 0:
                u = (u >> y) | (((1 << y) - 1) << (w - y))
            else:
                u >>= y
        if k != "byte" and u >> (w - 1):
            u -= 1 << w
        return dict(status="ok", val=ijson(k, u))
    if k == "float":
        if op in ("&", "|", "xor"):
            return dict(status="fail")
        if op in ("/", "%") and y == 0:
            return dict(status="fail")
        try:
            x, y = float(x), float(y)
        except OverflowError:
            return dict(status="skip")
        if not (math.isfinite(x) and math.isfinite(y)):
            return dict(status="skip")
        r = {"+": lambda: x + y, "-": lambda: x - y, "*": lambda: x * y, "/": lambda: x / y, "%": lambda: math.fmod(x, y)}[op]()
        if not math.isfinite(r) or not normal(r):
            return dict(status="skip")
        return dict(status="ok", val=fjson(r))
    lo, hi = RANGE[k]
    if op in ("&", "|", "xor"):
        w = WIDTH[k]
        ux, uy = x & ((1 << w) - 1), y & ((1 << w) - 1)
        u = {"&": ux & uy, "|": ux | uy, "xor": ux ^ uy}[op]
        if k != "byte" and u >> (w - 1):
            u -= 1 << w
        return dict(status="ok", val=ijson(k, u))
    if op in ("/", "%") and y == 0:
        return dict(status="fail")
    z = {"+": lambda: x + y, "-": lambda: x - y, "*": lambda: x * y, "/": lambda: trunc_div(x, y),
         "%": lambda: x - trunc_div(x, y) * y}[op]()
    if not (lo <= z <= hi):
        return dict(status="fail")
    return dict(status="ok", val=ijson(k, z))
