"""Pool of generated programs shared between checks (C09 explores the bytecode of all of them).
Filled in as generator specs are added."""
from pathlib import Path


def programs(binary, workdir, tier, seed):
    workdir = Path(workdir)
    workdir.mkdir(parents=True, exist_ok=True)
    out = []
    try:
        from .checks import c01
        out += c01.materialise_pool(binary, workdir / "c01", tier, seed)
    except (ImportError, AttributeError):
        pass
    return out


def features(binary, workdir, tier, seed):
    """Single-file programs of the other feature areas, from the generator specifications: closures (GenCapture),
    identifiers (GenNames), objects (GenObj, every single operation), lists and maps (GenHeap, every single
    operation), evaluation order (GenOrder, depth 1).  Used by C04 / C18, whose oracle is the equivalence of two
    execution paths and needs no reference semantics."""
    import json
    import random
    from . import gen, render
    workdir = Path(workdir)
    workdir.mkdir(parents=True, exist_ok=True)
    rnd = random.Random(seed)
    groups = {}
    cap, _ = gen.run_generator("GenCapture", workdir / "g_capture", dict(), timeout=300)
    groups["capture"] = cap
    names, _ = gen.run_generator("GenNames", workdir / "g_names", dict(), timeout=300)
    special = [c for c in names if c["role"] in ("classname", "method", "method_twice")]     # label-like names, a method declared twice
    rest = [c for c in names if c["role"] not in ("classname", "method", "method_twice")]
    groups["names"] = special + rnd.sample(rest, min(len(rest), 120))
    for mod, light, sel in (("GenObj", "GenObjLight", "GenObjSel"), ("GenHeap", "GenHeapLight", "GenHeapSel")):
        one, _ = gen.run_generator(mod, workdir / f"g_{mod}", dict(MaxLen=1), cfg=light, timeout=900)
        one = [c for c in one if len(c["hist"]) == 1]
        if tier == "quick" and len(one) > 250:
            one = rnd.sample(one, 250)
        exp, _ = gen.expand(mod, workdir / f"x_{mod}", one, sel)
        groups[mod.lower()] = exp
    order, _ = gen.run_generator("GenOrder", workdir / "g_order", dict(MaxDepth=1))
    roots = [c for c in order if len(c["toks"]) == 1]        # the roots that are whole programs (`self()` as a later element / argument / operand)
    others = [c for c in order if len(c["toks"]) != 1]
    groups["order"] = roots + rnd.sample(others, min(len(others), 200 if tier == "quick" else 1500))
    out = []
    for g, cases in groups.items():
        for k, c in enumerate(cases):
            d = workdir / "f" / g / str(k)
            d.mkdir(parents=True, exist_ok=True)
            if "mods" in c["prog"]:          # a small project: every module next to the entry module
                if any(m.get("dir") for m in c["prog"]["mods"]):
                    continue
                for m in c["prog"]["mods"]:
                    (d / (m["name"] + ".ms")).write_text(render.program(json.loads(json.dumps(m["body"]))))
                out.append(d / (c["prog"]["mods"][c["prog"]["entry"] - 1]["name"] + ".ms"))
            else:
                (d / "main.ms").write_text(render.program(json.loads(json.dumps(c["prog"]["body"]))))
                out.append(d / "main.ms")
    return out


def faults(workdir):
    """The programs of the fault catalogue (GenFault.tla): every ill-typed program and its well-typed twin, each in
    a directory of its own.  An ill-typed program the compiler (wrongly) accepts has bytecode like any other, and
    C09 explores it: a missing return value or a surplus argument that slipped through typing is an operand-shape
    defect of the emitted code."""
    from . import gen
    workdir = Path(workdir)
    workdir.mkdir(parents=True, exist_ok=True)
    cases, _ = gen.run_generator("GenFault", workdir / "g_fault")
    out = []
    for c in cases:
        for side in ("bad", "good"):
            d = workdir / "p" / c["id"].replace("/", "_").replace(" ", "_") / side
            d.mkdir(parents=True, exist_ok=True)
            for n, lines in c[side].items():
                if lines:
                    (d / f"{n}.ms").write_text("\n".join(lines) + "\n")
            if (d / "main.ms").exists():
                out.append(d / "main.ms")
    return out


def sizes(workdir, tier, seed):
    """Programs whose one string literal is long (GenSize.tla): a record / text line around 4 KiB, 8 KiB, 64 KiB."""
    import random
    from . import gen
    workdir = Path(workdir)
    workdir.mkdir(parents=True, exist_ok=True)
    cases, _ = gen.run_generator("GenSize", workdir / "g_size", dict(), timeout=300)
    cases.sort(key=lambda c: (c["unit"], c["count"], c["pad"]))
    if tier == "quick":
        cases = random.Random(seed).sample(cases, min(len(cases), 150))
    sub = {"~E~": "\u00e9", "~J~": "\u65e5", "~M~": "\U0001F642"}
    out = []
    for c in cases:
        unit = c["unit"]
        for k, v in sub.items():
            unit = unit.replace(k, v)
        d = workdir / "p" / f"{c['unit'].strip('~').replace(chr(92), 'bs').replace(chr(34), 'q').replace(' ', '_')}-{c['count']}-{c['pad']}"
        d.mkdir(parents=True, exist_ok=True)
        (d / "main.ms").write_text('print "S"\nx = "' + "p" * c["pad"] + unit * c["count"] + '"\nprint x.len()\nprint x\nprint "E"\n', encoding="utf-8")
        out.append(d / "main.ms")
    return out
