"""Pool of generated programs shared between checks (C09 explores the bytecode of all of them).
Filled in as generator specs are added."""
from pathlib import Path


def programs(binary, workdir, tier, seed):
    workdir = Path(workdir)
    workdir.mkdir(parents=True, exist_ok=True)
    out = []
    try:
        from .checks import c01
        out += c01.materialise_pool(binary, workdir / "c01", tier, seed)
    except (ImportError, AttributeError):
        pass
    return out
