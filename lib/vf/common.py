"""Shared machinery for every check: build, TLC, real-binary execution, verdicts, evidence.

Exit codes of a check: 0 = property held on everything explored, 1 = VIOLATION line(s)
printed, 2 = tool error / timeout (never reported as a violation).
"""
import concurrent.futures as cf
import hashlib
import json
import os
import re
import resource
import shutil
import signal
import subprocess
import sys
import time
from pathlib import Path

VERIF = Path(__file__).resolve().parents[2]
REPO = Path(os.environ.get("VERIF_REPO", "/repo"))
BUILD = VERIF / ".build"
WORK = VERIF / ".work"
SPEC = VERIF / "spec"
EVIDENCE = VERIF / "evidence"
REPLAYS = VERIF / "replays"
TLA_CP = "/opt/veriftools/tla/tla2tools.jar:/opt/veriftools/tla/CommunityModules-deps.jar"
GUARD_FLAGS = "--cfg mscript_verif --check-cfg cfg(mscript_verif)"
NCPU = os.cpu_count() or 8


class ToolError(Exception):
    pass


def log(*a):
    print(*a, file=sys.stderr, flush=True)


def seed_from_env():
    try:
        return int(os.environ.get("VERIF_SEED", "1"))
    except ValueError:
        return 1


# --------------------------------------------------------------------------- build

_built = {}


def build(package_bins=True):
    """Build /repo's working tree with the hooks on; return the path of the mscript binary."""
    if "bin" in _built:
        return _built["bin"]
    BUILD.mkdir(exist_ok=True)
    env = dict(os.environ)
    env["RUSTFLAGS"] = GUARD_FLAGS
    env["CARGO_NET_OFFLINE"] = "true"
    env["RUST_BACKTRACE"] = "0"
    t0 = time.time()
    lock = BUILD / "build.lock"
    import fcntl

    with open(lock, "w") as lf:
        fcntl.flock(lf, fcntl.LOCK_EX)
        p = subprocess.run(
            ["cargo", "build", "--offline", "--quiet", "--manifest-path", str(REPO / "Cargo.toml"),
             "--target-dir", str(BUILD / "target")],
            env=env, capture_output=True, text=True, timeout=1800)
    if p.returncode != 0:
        tail = "\n".join([l for l in p.stderr.splitlines() if not l.startswith("warning")][-40:])
        raise ToolError("cargo build failed:\n" + tail)
    binary = BUILD / "target" / "debug" / "mscript"
    if not binary.exists():
        raise ToolError("no binary after build")
    log(f"[build] ok in {time.time()-t0:.1f}s")
    _built["bin"] = binary
    return binary


# --------------------------------------------------------------------------- processes

def _limits(mem_mb):
    def f():
        os.setsid()
        if mem_mb:
            b = mem_mb * 1024 * 1024
            resource.setrlimit(resource.RLIMIT_AS, (b, b))
        resource.setrlimit(resource.RLIMIT_CORE, (0, 0))
    return f


def run_proc(argv, cwd=None, env=None, timeout=10, mem_mb=4096, stdin=None):
    """Run a child under timeout and an address-space cap. Returns a dict; never raises on failure
    of the child (a panic of the code under test is data)."""
    e = dict(os.environ)
    e["RUST_BACKTRACE"] = "0"
    e["NO_COLOR"] = "1"
    e["CLICOLOR"] = "0"
    if env:
        e.update(env)
    t0 = time.time()
    full = [str(a) for a in argv]
    if mem_mb:
        full = ["prlimit", f"--as={mem_mb * 1024 * 1024}", "--core=0"] + full
    try:
        # no preexec_fn: lets CPython use vfork/posix_spawn (a fork of this large process costs ~10 ms)
        p = subprocess.Popen(full, cwd=cwd, env=e, stdin=subprocess.DEVNULL if stdin is None else subprocess.PIPE,
                             stdout=subprocess.PIPE, stderr=subprocess.PIPE, start_new_session=True)
    except OSError as ex:
        return dict(exit=-1, sig=0, out="", err=str(ex), timeout=False, wall=0.0)
    try:
        out, err = p.communicate(input=stdin, timeout=timeout)
        to = False
    except subprocess.TimeoutExpired:
        try:
            os.killpg(p.pid, signal.SIGKILL)
        except ProcessLookupError:
            pass
        out, err = p.communicate()
        to = True
    rc = p.returncode
    sig = -rc if rc is not None and rc < 0 else 0
    # a program that loops while printing can produce hundreds of megabytes before the time limit: keep the head
    # (a truncated output still differs from any prescribed output, and the tail of stderr carries the report)
    CAP = 262144
    if len(out) > CAP:
        out = out[:CAP] + b"\n...[output truncated]\n"
    if len(err) > 4 * CAP:
        err = err[:CAP] + b"\n...[truncated]...\n" + err[-CAP:]
    return dict(exit=rc if rc is not None and rc >= 0 else -1, sig=sig,
                out=out.decode("utf-8", "replace"), err=err.decode("utf-8", "replace"),
                timeout=to, wall=time.time() - t0)


ANSI = re.compile(r"\x1b\[[0-9;]*m")


def strip_ansi(s):
    return ANSI.sub("", s)


def pmap(fn, items, threads=None):
    threads = threads or NCPU
    with cf.ThreadPoolExecutor(max_workers=threads) as ex:
        return list(ex.map(fn, items))


# --------------------------------------------------------------------------- TLC

class TlcResult:
    def __init__(self):
        self.stdout = ""
        self.prints = []       # decoded PrintT payloads (python objects when JSON strings)
        self.generated = 0
        self.distinct = 0
        self.ok = False
        self.error = None
        self.wall = 0.0
        self.coverage = {}
        self.invariant_violated = None


_PRINT_STR = re.compile(r'^"(.*)"$')


def tlc(module, cfg=None, workdir=None, env=None, workers="auto", timeout=600, simulate=None,
        depth=None, seed=None, coverage=False, heap_mb=6000, deadlock=False, extra=(), dfs=False,
        want_prefix=None, copy_specs=True):
    """Run TLC on spec/<module>.tla with spec/<cfg>.cfg inside workdir (specs copied there).

    PrintT("<prefix> <json>") lines are collected into result.prints[prefix] lists.
    """
    workdir = Path(workdir)
    workdir.mkdir(parents=True, exist_ok=True)
    if copy_specs:
        for f in SPEC.glob("*.tla"):
            shutil.copy(f, workdir / f.name)
        for f in SPEC.glob("*.cfg"):
            shutil.copy(f, workdir / f.name)
    cfg = cfg or module
    jopts = ["-Xss1g", f"-Xmx{heap_mb}m", "-XX:+UseParallelGC", "-XX:-UseGCOverheadLimit"]
    if dfs:
        jopts.append("-Dtlc2.tool.queue.IStateQueue=StateDeque")
    argv = ["java"] + jopts + ["-cp", TLA_CP, "tlc2.TLC", "-config", f"{cfg}.cfg",
                                "-workers", str(workers), "-metadir", str(workdir / "tlcmeta"),
                                "-cleanup", "-noGenerateSpecTE"]
    if not deadlock:
        argv += ["-deadlock"]
    if simulate:
        argv += ["-simulate", f"num={simulate}"]
    if depth:
        argv += ["-depth", str(depth)]
    if seed is not None:
        argv += ["-seed", str(seed)]
    if coverage:
        argv += ["-coverage", "1"]
    argv += list(extra) + [f"{module}.tla"]
    e = dict(os.environ)
    e.pop("JAVA_TOOL_OPTIONS", None)
    if env:
        e.update({k: str(v) for k, v in env.items()})
    t0 = time.time()
    res = TlcResult()
    try:
        p = subprocess.run(argv, cwd=workdir, env=e, capture_output=True, text=True, timeout=timeout)
    except subprocess.TimeoutExpired as ex:
        if simulate:
            # simulation under an outer timeout is a normal way to stop
            res.stdout = (ex.stdout or b"").decode("utf-8", "replace") if isinstance(ex.stdout, bytes) else (ex.stdout or "")
            res.ok = True
            res.wall = time.time() - t0
            _parse_tlc(res, want_prefix)
            return res
        raise ToolError(f"TLC timeout after {timeout}s on {module}")
    res.stdout = p.stdout
    res.wall = time.time() - t0
    _parse_tlc(res, want_prefix)
    (workdir / f"{module}.{cfg}.tlc.out").write_text(p.stdout[-2_000_000:] + "\n--- stderr ---\n" + p.stderr[-20000:])
    if "Model checking completed. No error has been found." in p.stdout or (simulate and res.error is None and p.returncode in (0,)):
        res.ok = True
    elif res.invariant_violated:
        res.ok = False
    else:
        if res.error is None:
            res.error = f"TLC exit {p.returncode}: " + p.stdout[-1500:] + p.stderr[-500:]
    return res


def _parse_tlc(res, want_prefix):
    prints = {}
    for line in res.stdout.splitlines():
        m = _PRINT_STR.match(line)
        if m:
            try:
                s = json.loads(line)
            except Exception:
                continue
            sp = s.split(" ", 1)
            if len(sp) == 2 and sp[0].isupper():
                try:
                    prints.setdefault(sp[0], []).append(json.loads(sp[1]))
                except Exception:
                    prints.setdefault(sp[0], []).append(sp[1])
            continue
        m = re.match(r"^(\d+) states generated, (\d+) distinct states found", line)
        if m:
            res.generated, res.distinct = int(m.group(1)), int(m.group(2))
        m = re.match(r"^Error: Invariant (\S+) is violated", line)
        if m:
            res.invariant_violated = m.group(1)
        elif line.startswith("Error:") and res.error is None and "Invariant" not in line:
            idx = res.stdout.find(line)
            res.error = res.stdout[idx: idx + 1500]
        m = re.match(r"^<(\w+) line \d+, col \d+ to line \d+, col \d+ of module (\w+)>: (\d+):(\d+)", line)
        if m:
            res.coverage[f"{m.group(2)}.{m.group(1)}"] = (int(m.group(3)), int(m.group(4)))
    res.prints = prints


def sany_all():
    bad = []
    for f in sorted(SPEC.glob("*.tla")):
        p = subprocess.run(["java", "-cp", TLA_CP, "tla2sany.SANY", f.name], cwd=SPEC, capture_output=True, text=True)
        if p.returncode != 0 or "error" in p.stdout.lower().replace("semantic errors:\n\n", ""):
            if "*** Errors" in p.stdout or "Fatal" in p.stdout or p.returncode != 0:
                bad.append((f.name, p.stdout[-800:]))
    return bad


# --------------------------------------------------------------------------- findings / verdicts

def load_findings(pid):
    f = VERIF / "known_findings.json"
    if not f.exists():
        return []
    data = json.loads(f.read_text())
    return [x for x in data.get("findings", []) if x.get("property") == pid]


def match_finding(findings, key):
    for f in findings:
        if f.get("status") != "open":
            continue
        m = f.get("match", {})
        if "key" in m and m["key"] == key:
            return f
        if "prefix" in m and key.startswith(m["prefix"]):
            return f
        if "regex" in m and re.search(m["regex"], key):
            return f
    return None


def short_hash(obj):
    return hashlib.sha1(json.dumps(obj, sort_keys=True, default=str).encode()).hexdigest()[:12]


class Report:
    """Collects verdicts of one check run, prints VIOLATION / KNOWN-FINDING lines, writes
    replays and the evidence file."""

    def __init__(self, pid, tier, level):
        self.pid, self.tier, self.level = pid, tier, level
        self.seed = seed_from_env()
        self.t0 = time.time()
        self.violations = []   # (key, what, replay_payload)
        self.known = {}
        self.findings = load_findings(pid)
        self.coverage = {}
        self.assumptions = []
        self.tool_errors = []
        shutil.rmtree(REPLAYS / pid, ignore_errors=True)

    def violation(self, key, what, payload):
        f = match_finding(self.findings, key)
        if f is not None:
            self.known.setdefault(f["id"], [f, 0])[1] += 1
            return False
        self.violations.append((key, what, payload))
        return True

    def write_replay(self, key, what, payload):
        d = REPLAYS / self.pid / short_hash(key)
        if d.exists():
            shutil.rmtree(d)
        d.mkdir(parents=True)
        (d / "case.json").write_text(json.dumps(dict(property=self.pid, key=key, what=what, payload=payload), indent=1, default=str, ensure_ascii=False))
        files = payload.get("files") if isinstance(payload, dict) else None
        if files:
            for name, content in files.items():
                fp = d / "files" / name
                fp.parent.mkdir(parents=True, exist_ok=True)
                if isinstance(content, bytes):
                    fp.write_bytes(content)
                else:
                    fp.write_text(content)
        return d

    def finish(self):
        wall = time.time() - self.t0
        for fid, (f, n) in sorted(self.known.items()):
            print(f"KNOWN-FINDING: property={self.pid} {f['id']}: {f['what']} ({n} case(s) this run)")
        shown = 0
        seen = set()
        for key, what, payload in self.violations:
            if key in seen:
                continue
            seen.add(key)
            d = self.write_replay(key, what, payload)
            if shown < 25:
                print(f"VIOLATION property={self.pid} replay={d}")
                log(f"   {key}: {what}")
            shown += 1
        if shown > 25:
            log(f"   ... {shown-25} more violations (replays written)")
        EVIDENCE.mkdir(exist_ok=True)
        ev = dict(property_id=self.pid, tier=self.tier, seed=self.seed, level=self.level,
                  coverage=self.coverage, assumptions=self.assumptions, wall_s=round(wall, 2),
                  violations=len(seen), known_findings={k: v[1] for k, v in self.known.items()})
        (EVIDENCE / f"{self.pid}.json").write_text(json.dumps(ev, indent=1, ensure_ascii=False, default=str))
        log(f"[{self.pid}] {self.tier}: wall {wall:.1f}s violations={len(seen)} known={ {k: v[1] for k, v in self.known.items()} }")
        return 1 if seen else 0


def fresh_dir(p):
    p = Path(p)
    if p.exists():
        shutil.rmtree(p, ignore_errors=True)
    p.mkdir(parents=True, exist_ok=True)
    return p


def write_ndjson(path, rows):
    with open(path, "w") as f:
        for r in rows:
            f.write(json.dumps(r, ensure_ascii=False) + "\n")
