"""Shared harness of the L1 family: render program ASTs, run them on the real binary through
both execution paths, let TLC (spec/CheckLang.tla = MSLang!Run) judge every case."""
import json
import os
import re
import shutil
import threading
from pathlib import Path

from . import classify, common as C, render

_tls = threading.local()


def _slot(root):
    d = getattr(_tls, "dir", None)
    if d is None or not str(d).startswith(str(root)):
        d = Path(root) / f"slot{threading.get_ident()}"
        d.mkdir(parents=True, exist_ok=True)
        _tls.dir = d
    return d


def observe(binary, root, src, paths=("run", "exec"), timeout=10, trace=False, files=None, entry="main"):
    """Run one program (single source `src`, or a project `files` name->source with entry module)
    through the requested paths. Returns list of observation dicts."""
    d = _slot(root)
    for f in list(d.rglob("*")):
        if f.is_file():
            f.unlink()
    if files is None:
        files = {"main": src}
    for name, text in files.items():        # a name may carry a directory (`sub/m3`)
        (d / f"{name}.ms").parent.mkdir(parents=True, exist_ok=True)
        (d / f"{name}.ms").write_text(text)
    obs = []
    compile_rejected = False
    for p in paths:
        env = {}
        tr = d / f"{p}.trace.ndjson"
        if trace:
            env = dict(MSCRIPT_VERIF_TRACE=str(tr), MSCRIPT_VERIF_TRACE_INS="0")
        for f in d.rglob("*.mmm"):
            f.unlink()
        if p == "run":
            r = C.run_proc([binary, "run", f"{entry}.ms", "-q"], cwd=d, timeout=timeout, env=env)
        elif p == "exec":
            rc = C.run_proc([binary, "compile", f"{entry}.ms", "--quick"], cwd=d, timeout=timeout)
            if rc["exit"] != 0 or rc["timeout"]:
                r = rc
            else:
                r = C.run_proc([binary, "execute", f"{entry}.mmm"], cwd=d, timeout=timeout, env=env)
        else:
            raise ValueError(p)
        fclass, panic = classify.classify(r)
        m = re.search(r"([\w./-]+\.ms):(\d+):(\d+)", r["err"]) if fclass in ("nil", "assert") else None
        if fclass == "compile":
            compile_rejected = True
        events = []
        if trace and tr.exists():
            from . import corpus
            events = corpus.read_ndjson(tr)
            tr.unlink()
        obs.append(dict(path=p, exit=r["exit"] if not r["timeout"] else 124, out=classify.out_lines(r["out"]) if fclass != "compile" else [],
                        fclass=fclass, panic=panic, err=C.strip_ansi(r["err"])[-1500:],
                        posfile=m.group(1) if m else "", posline=int(m.group(2)) if m else 0, poscol=int(m.group(3)) if m else 0,
                        diag=C.strip_ansi(r["out"])[-1500:] if fclass == "compile" else "", events=events,
                        banner="MSCRIPT INTERPRETER FATAL RUNTIME ERROR" in r["err"], trace=parse_trace(C.strip_ansi(r["err"]))))
    return obs, compile_rejected


def parse_trace(err):
    """`Call stack trace:` section of the fatal-error report -> [k, m, n] entries, innermost first."""
    out = []
    lines = err.split("\n")
    try:
        k = next(i for i, l in enumerate(lines) if l.strip() == "Call stack trace:")
    except StopIteration:
        return out
    for l in lines[k + 1:]:
        t = l.strip()
        if not t:
            break
        if t.startswith(">> "):
            t = t[3:]
        elif t.startswith("^ "):
            t = t[2:]
        else:
            break
        t = t.strip()
        if t in ("<if>", "<else>", "<while>"):
            out.append(dict(k="B", m="", n=t))
        elif t.startswith("<native code>"):
            out.append(dict(k="N", m="", n=t))
        elif "#" in t:
            f, n = t.rsplit("#", 1)
            stem = f.rsplit("/", 1)[-1]
            stem = stem[:-4] if stem.endswith(".mmm") else stem
            if n == "__module__":
                out.append(dict(k="M", m=stem, n=""))
            elif "::" in n:
                out.append(dict(k="C", m=stem, n=n))
            else:
                out.append(dict(k="F", m=stem, n=n))
        else:
            out.append(dict(k="?", m="", n=t))
    return out


def expect_pos(files):
    """Where the (single) `get` / failing `assert` of a generated program is: file, line and column
    range. n = 0 when the program has none or several (then positions are not judged)."""
    out = {}
    for word, key in (("(get ", "get"), ("assert ", "assert")):
        hits = []
        for fname, src in files.items():
            for ln, line in enumerate(src.split("\n"), 1):
                k = line.find(word)
                if k >= 0:
                    # columns are 1-based and count characters.  `assert`: the report names the first character of the
                    # statement; `get`: a column inside the parenthesised get-expression
                    if key == "assert":
                        hits.append((fname, ln, k + 1, k + 1))
                    else:
                        close = line.find(")", k)
                        hits.append((fname, ln, k + 1, close + 1 if close >= 0 else len(line)))
                    if line.find(word, k + 1) >= 0:
                        hits.append((fname, ln, 0, 0))
        if len(hits) == 1:
            out[key] = dict(n=1, file=hits[0][0], line=hits[0][1], lo=hits[0][2], hi=hits[0][3])
        else:
            out[key] = dict(n=0, file="", line=0, lo=0, hi=0)
    return out


def run_cases(binary, work, cases, paths=("run", "exec"), tlc_workers=12, tlc_timeout=3000, chunk=10000, trace=False):
    """cases: list of dict(id, prog, ...). Adds 'src', 'obs', 'rejected'. Returns (disagreements, skips)."""
    work = Path(work)
    root = C.fresh_dir(work / "slots")

    def one(c):
        if "mods" in c["prog"]:
            files = {m.get("dir", "") + m["name"]: render.program(json.loads(json.dumps(m["body"]))) for m in c["prog"]["mods"]}
            entry = c["prog"]["mods"][c["prog"]["entry"] - 1]["name"]
            src = "".join(f"### {n}.ms\n{t}" for n, t in files.items())
            obs, rej = observe(binary, root, src, paths, trace=trace, files=files, entry=entry)
            c["files"] = {f"{n}.ms": t for n, t in files.items()}
        else:
            src = render.program(json.loads(json.dumps(c["prog"]["body"])))
            obs, rej = observe(binary, root, src, paths, trace=trace)
            c["files"] = {"main.ms": src}
        c["src"], c["obs"], c["rejected"] = src, obs, rej
        c["expect"] = expect_pos(c["files"])
        return c
    import time
    t0 = time.time()
    C.pmap(one, cases)
    C.log(f"[l1] executed {len(cases)} programs x {len(paths)} paths in {time.time()-t0:.1f}s")
    shutil.rmtree(root, ignore_errors=True)
    judged = [c for c in cases if not c["rejected"]]
    dis, skips = [], []
    states = gen = 0
    for k in range(0, len(judged), chunk):
        part = judged[k:k + chunk]
        f = work / f"cases{k}.ndjson"
        C.write_ndjson(f, [dict(id=c["id"], prog=c["prog"], expect=c["expect"], judge_trace=bool(c.get("judge_trace")),
                                obs=[dict(path=o["path"], exit=o["exit"], out=o["out"], fclass=o["fclass"],
                                          posfile=o["posfile"], posline=o["posline"], poscol=o["poscol"],
                                          banner=o["banner"], trace=o["trace"]) for o in c["obs"]]) for c in part])
        r = C.tlc("CheckLang", "CheckLang", work / f"judge{k}", env=dict(CASES=str(f)), workers=tlc_workers, timeout=tlc_timeout, heap_mb=12000)
        if r.error or r.invariant_violated:
            raise C.ToolError(f"CheckLang: {r.error or r.invariant_violated}")
        if r.distinct != len(part):
            raise C.ToolError(f"CheckLang evaluated {r.distinct} of {len(part)} cases")
        C.log(f"[l1] TLC judged {len(part)} cases in {r.wall:.1f}s")
        dis += r.prints.get("DISAGREE", [])
        skips += r.prints.get("SKIP", [])
        states += r.distinct
        gen += r.generated
    return dis, skips, dict(states=states, transitions=gen)
