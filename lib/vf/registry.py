"""Single table of claimed checks; bin/mkmanifest renders MANIFEST.json from it."""

CHECKS = {
    "C02": dict(
        level="exploration",
        technique="TLA+ generator GenSound (type-directed catalogue: operator x static kind pair matrix, unary operators, every built-in / index / field / method / closure / optional expression in a typed position); each case prints the compiler's own `typeof` and the value, whose dynamic kind the typed-print hook reports; TLC judge CheckSound (KindOk = the kind inhabits the reported static type; failures must belong to the dynamic classes the language defines)",
        text="Exhaustive over the rule matrices (684 operator cells + 12 unary + ~130 typed positions); only programs the compiler accepts are judged (soundness is one-directional).",
        note="Larger composed programs are covered indirectly: every accepted program of the L1 generators is compared with the reference semantics, which has no dynamic type errors. Element kinds inside lists are not compared with the element type. Failure messages are classified by a closed table.",
        design="5/C02",
    ),
    "C03": dict(
        level="fault_enumeration",
        technique="TLA+ spec MSTypes (type universe, three-valued Assignable, unsupported operator categories) and generator GenFault enumerating (site, fault, context) triples - 10 typed sites x MustNot type pairs, 24 fixed faults (unknown name/field/method, call of non-callable, bad index, arity, return values, conditions, loop bounds, unary operators), unsupported operator/operand categories - in 5 contexts incl. an imported module, each with its well-typed twin; TLC judge CheckFault demands compile-time rejection, a diagnostic at the faulted file:line, nothing executed, and a twin that compiles and runs",
        text="Exhaustive fault enumeration over the catalogue (about 700 (program, site, fault) triples): every definite fault must be rejected with a located diagnostic before anything runs; the twin guards against vacuous rejection.",
        note="Only definite faults (Assignable = MustNot) are used; numeric widening and fixed-vs-open list pairs are unspecified. One open finding: T? accepted where T is required in return / field / index / map-value / or-fallback positions (pinned by the repository's own tests).",
        design="5/C03",
    ),
    "C10": dict(
        level="fault_enumeration",
        technique="TLA+ spec GenConst: the constness machine (a write form is enabled only on a mutable binding) and the exhaustive enumeration of (declaration, write form, write context) triples for which the form denotes a write to the declared binding (IsWrite); each triple is rendered with `const` (TLC judge CheckConst demands compile-time rejection with a file:line:col diagnostic and that nothing ran) and as its mutable twin (must behave as MSLang prescribes, i.e. the write is really a write)",
        text="Exhaustive fault enumeration: every triple of the catalogue (10 declaration kinds x 15 write forms x 5 contexts, filtered by IsWrite) is executed; the twin guards against vacuous rejection.",
        note="Names imported with `import a from m` are local copies (pinned by the repository's test) and excluded; plain assignment / counter / unpack inside a nested function or method declare locals and are not writes; a counter re-using a name of an enclosing block is unspecified and excluded.",
        design="5/C10",
    ),
    "C16": dict(
        level="exploration",
        technique="TLA+ spec MSGrammar supplies the input space: a derivation machine over a transcription of grammar.pest (leftmost expansion, depth budget) and a token-edit machine (delete / duplicate / swap / replace / insert, up to 3 edits) over the tokenised example corpus, explored by TLC BFS (all single structural edits) and seeded -simulate; the oracle is the post-condition of the real `compile`: ends within 10 s with exit 0 or 1",
        text="Exploration of grammar-derived and corpus-mutated inputs (9k quick, >100k thorough); any panic, abort, signal or hang is a verdict keyed by panic site.",
        note="The specification contributes the input space, not a behavioural oracle. Random parts depend on VERIF_SEED: an unseen panic site of the pinned tree can surface under another seed (nine sites were found and repaired so far).",
        design="5/C16",
    ),
    "C19": dict(
        level="exploration",
        technique="TLA+ spec MSFfi (the call convention as a stack machine: Push / CallLib / PrintAll / Void; MSFfiMachine explores it step by step with invariants ArgumentsUnchanged, NoInstructionAfterFailure, MatchesExpected); TLA+ generator GenFfi enumerates argument vectors x call kinds x an optional second call; each case is hand-assembled text bytecode -> transpile -> execute against the probe cdylib that reports the slice it received; TLC judge CheckFfi",
        text="Exhaustive small-scope exploration of argument vectors (all kinds, length 0-3/4, boundary values) for every return form and fault, including two-call sequences (stale operands, cached library/symbol), replayed on the real interpreter and judged on stdout, exit status and error text.",
        note="The probe library is built from harness/ffi_probe against /repo/bytecode with the binary's flags; Debug formatting of Primitive is the observation channel; vectors of length 5-6 only in thorough over two values.",
        design="5/C19",
    ),
    "C14": dict(
        level="exploration",
        technique="TLA+ specification of every string/number built-in (CheckBuiltin over MSStr = string functions on character sequences and MSNum = exact integers / IEEE doubles incl. correctly rounded sqrt, decimal and radix parsing, float->int truncation, floor/ceil/round/ipart/fpart); TLA+ generator GenBuiltin enumerates method x boundary receivers/arguments; every call executed by the real binary with operands in variables; typed result (kind + exact value) judged by TLC",
        text="Exhaustive over the method x boundary-set matrix (2k calls quick, more values thorough): value and declared kind must equal the specification's, and calls outside the domain must fail.",
        note="ASCII receivers only; float pow/powf, float to_str, negative sqrt, negative split position, 0x-prefixed / exponent parse texts are unspecified and skipped; a panic counts as a failure here.",
        design="5/C14",
    ),
    "C06": dict(
        level="translation_validation",
        technique="TLA+ generator GenExpr (prefix-token derivations of expression trees over numeric literals; BFS + -simulate); TLA+ spec MSNum evaluates every tree exactly (CheckFold!Ev) and classifies ill-typed trees statically (KindOf); each tree is executed twice by the real binary - folded (compiler evaluates) and unfolded (interpreter evaluates, literals through variables) - and TLC (CheckFold) judges the three-way agreement of kind and exact value, and that the folded rendering is rejected at compile time exactly when evaluation must fail",
        text="Per-tree three-way equivalence between the specification, the compiler's constant folder and the interpreter, exhaustive for one operator level over the literal set (11k trees quick, 27 literals thorough) plus sampled deeper trees.",
        note="Literals are the non-negative representable ones of each kind (an int literal that does not fit 32 bits is outside the set); `!`, comparisons and booleans are not part of the generated trees; ill-typed trees are skipped, not judged.",
        design="5/C06",
    ),
    "C05": dict(
        level="exploration",
        technique="TLA+ spec MSNum: the numeric tower as exact arithmetic on limb sequences (i32/i128/u8 ranges, promotion table, truncating division, sign-of-dividend remainder, two's-complement bit operations and shifts, IEEE-754 binary64 add/sub/mul/div/fmod/int->double with round-to-nearest-even by integer arithmetic); TLA+ generator GenNum enumerates operator x kind pair x boundary-value pairs; every case is executed by the real binary with run-time operands and its typed result (kind + exact bits) is judged by TLC (CheckNum)",
        text="Exhaustive over the operator x kind x boundary-value matrix (7.7k cases quick, ~75k thorough): the promoted kind and the exact value (or the obligation to fail) come from the specification, the observation from the typed-print hook.",
        note="MSNum was self-tested against an independent big-integer/IEEE reference on 9k cases (0 disagreements). Float results outside the normal range are out of model. Shifts/bitwise operators are pattern operations at the promoted width (only the amount has a range). A panic counts as a failure for this property.",
        design="5/C05",
    ),
    "C17": dict(
        level="exploration",
        technique="TLA+ generator GenFail (failure kind x position x call chain over function / method / list-callback activations x split into an imported module, BFS); TLA+ reference semantics MSLang tracks the stack of active functions (ghost `stack`, frozen into `ftrace` at the failure); replay on the real binary; TLC judge CheckLang demands banner + exit 1 + output prefix + failure class + a reported trace structurally equal to the model's activation list (+ file:line:col for assert / get)",
        text="Exhaustive enumeration of the fault space up to the chain-depth bound with every execution judged against the specification's failure class, output prefix and activation stack.",
        note="Trace entries are compared structurally (kind, file, method name, equality pattern of function entries) because compiler-assigned function names are not part of the property; conversion failures and closures-as-levels are not generated yet.",
        design="5/C17",
    ),
    "C08": dict(
        level="exploration",
        technique="TLA+ generator GenObj (state = history of constructions, method calls, field accesses and aliasings; BFS pairs + -simulate long histories, two-phase); TLA+ object model in MSLang (identity + field cells, bound methods, Self) evaluated by TLC; replay on the real binary; TLC judge CheckLang",
        text="Exploration of operation histories with every object observed through every alias (fields, list-typed field, `is` between all pairs, a Pair's class-typed/optional fields, a list of objects) after every operation, compared with the specification.",
        note="Trusts MSLang's object semantics; two classes (Counter, Pair) with a fixed member set; object printing is never used (addresses).",
        design="5/C08",
    ),
    "C11": dict(
        level="model_checking",
        technique="TLA+ generator GenMod (all import DAGs x import form x path spelling x import placement); TLA+ reference semantics MSLang!RunProject (first executed import runs the module body to completion, one shared export map per module); TLA+ loader machine MSModules (cache hit/miss, pending, running stack) with invariants InitAtMostOnce / OneInstance / InitBeforeImporterContinues; TraceMod validates the hook-H3 event trace of every real execution (run in memory and compile+execute from files) against MSModules; CheckLang judges outputs",
        text="Every project of the enumerated space is executed by both paths; its output is compared with the specification and its loader events are validated step by step against the loader state machine whose invariants are the property.",
        note="Trusts the H3 hook placement (at the cache decision) and MSLang's module semantics. Quick covers <= 3 modules exhaustively; negative variants (non-exported names, reassigning exports) belong to C03/C10.",
        design="5/C11",
    ),
    "C04": dict(
        level="model_checking",
        technique="TLA+ spec MSCodec (source-literal decoder, binary/text writers, the split_string_v2 tokenizer as a character-step machine); TLC BFS over all strings up to length 3/4 over the format-special alphabet checks the round-trip theorem ReadArgs(WriteArgs(a)) = a for every argument and every 3-way cut into argument vectors; every string is replayed as a source literal through `run` and `compile`+`execute`; TLC judge CheckCodec compares stdout, exit and the H4 dumps of what each loader holds, and binds the model's Decode to the compiler's emitted argument",
        text="Exhaustive small-scope model checking of the transcribed writer/reader state machines, bound to the implementation per enumerated string (model prediction = emitted argument; in-memory bytecode = bytecode read back from the file, instruction by instruction, including code that is never executed), plus whole-program equivalence on the example corpus and generated programs.",
        note="Trusts the H4 dump hook; NUL is outside the alphabet (cannot occur in source); nondeterministic programs (hash order, addresses) are excluded from whole-program comparison; multi-module projects come from the example corpus only.",
        design="5/C04",
    ),
    "C18": dict(
        level="model_checking",
        technique="same TLA+ spec MSCodec: text writer, transpiler tokenizer + re-encoder, loader; TLC checks RoundTripText for all strings/cuts; replay of every literal through raw-text -> transpile -> execute against `run`; TLC judge CheckCodec",
        text="Exhaustive small-scope model checking of the three-stage text pipeline on the specification plus per-string and whole-program replay (single-module programs) comparing output, exit status and loaded bytecode with the in-memory path.",
        note="As C04; the opcode-name table is exercised through every instruction that occurs in the corpus and generated programs (all names the compiler emits), not through hand-written bytecode.",
        design="5/C18",
    ),
    "C13": dict(
        level="exploration",
        technique="TLA+ generator GenHeap (state = history of list/map operations on two containers and a re-pointable/clonable alias; BFS over all histories to a bound + -simulate long ones, two-phase: enumerate histories, expand the selected ones into programs); TLA+ heap model in MSLang (lists = sequences, maps = finite entry lists, references) evaluated by TLC; replay on the real binary; TLC judge CheckLang",
        text="Exploration of operation histories with every variable (including aliases) observed after every operation: all single operations, all/sampled pairs, seeded longer histories, each compared with the mathematical sequence / finite-map model.",
        note="Trusts MSLang's heap model; map iteration order is not observed; element types int/str/int?; nested lists are not generated yet.",
        design="5/C13",
    ),
    "C12": dict(
        level="translation_validation",
        technique="TLA+ generator GenOpt (full product carrier x type x nil/present x use x position); TLA+ reference semantics MSLang (nil, get, or with lazy default, ?= as store+presence) evaluated by TLC; replay on the real binary via run and compile+execute; TLC judge CheckLang incl. source position of a failing `get`",
        text="Exhaustive enumeration of the scenario product (1230 programs) with per-program comparison of output, failure class and the reported file:line:column of a failing `get` against the specification.",
        note="Trusts MSLang optional semantics; class-typed optionals and fields are exercised by the C08 generator.",
        design="5/C12",
    ),
    "C07": dict(
        level="exploration",
        technique="TLA+ generator GenClos (state = history of closure calls / owner assignments over module-level, per-activation and nested closures; BFS = all histories to a bound, -simulate = long random ones); TLA+ reference semantics MSLang (cells, capture of free variables by cell identity, modify) evaluated by TLC; replay of every history on the real binary; TLC judge CheckLang",
        text="Exhaustive exploration of all operation histories up to the bound (quick 2, thorough 3) over 43 operations plus seeded long histories (8/12), each executed for real and compared line by line with the specification's evaluation.",
        note="Trusts MSLang's closure semantics as the reading of the property; histories are generated from one fixed family of closure templates (module, function x2 instances, nested function; reader / modify-writer / local-writer; direct / via shadowing caller / via plain caller).",
        design="5/C07",
    ),
    "C15": dict(
        level="translation_validation",
        technique="TLA+ generator GenOrder (typed prefix-token derivations of expression trees with logging leaves; BFS + -simulate); TLA+ reference semantics MSLang gives the prescribed log; replay on the real binary via run and compile+execute; TLC judge CheckLang",
        text="Per-program comparison of the evaluation log prescribed by the specification (strict left-to-right, exactly once, short-circuit) with the log printed by the compiled program, for all trees of operand depth <= 1, all/sampled depth 2 and simulated deeper trees.",
        note="Trusts MSLang expression semantics and the renderer. Map literals and method calls on objects are covered by C13/C08 generators, not here.",
        design="5/C15",
    ),
    "C01": dict(
        level="translation_validation",
        technique="TLA+ reference semantics MSLang (big-step, cells/frames/closures, checked 32-bit arithmetic, failure classes) evaluated by TLC on every program AST enumerated by the TLA+ generator GenCtl (BFS over nesting paths); the rendering of each program is executed by the real binary via `run` and `compile`+`execute`; TLC spec CheckLang decides agreement of output lines, exit status and failure class",
        text="Per-program equivalence between the specification's evaluation and the compiled execution, for every control-flow nesting shape up to the bound (exhaustive to depth 2 in quick / 3 in thorough, seeded sample one level deeper): every mismatch in printed lines, order, exit status or failing statement is a verdict of the TLC judge.",
        note="Trusts: MSLang.tla as the reading of the language (pinned by experiment, DESIGN appendix C), the AST pretty printer, the stderr classifier table. A panic counts as non-zero exit here (C17 judges panics).",
        design="5/C01",
    ),
    "C09": dict(
        level="model_checking",
        technique="TLA+ spec MSVM (bytecode machine, shape mode: ip, block frames with regions, operand-depth interval); TLC explores every dumped function over all branch outcomes (ExploreVM) checking JumpInRange/PopsOnlyBlockFrames/DonePopsInnermostIfElse/FrameWithinRegion/DepthBounded/OperandShape/ModuleExitsWithEmptyStack; TraceVM trace-validates per-instruction hook traces of the real interpreter against the same successor relation",
        text="Model checking of the real compiler's output: the bytecode is not modelled but loaded (hook H4 dump of what the interpreter's reader produced) and every reachable abstract state of every function is visited for all outcomes of all conditions, so paths no test executes are covered; the machine itself is bound to Function::run by validating instruction-level traces (frame depth and operand depth must agree at every fetch).",
        note="Trusts: the H4 dump and H1 trace hooks report the loader's/interpreter's real state; operand depth is an interval (unknown callee arity widens it, which can only weaken OperandShape); programs explored = example corpus + generator pools, not all programs.",
        design="5/C09",
    ),
    "C20": dict(
        level="model_checking",
        technique="TLA+ spec MSClean (one Clean action over an abstract directory tree); TLC BFS enumerates all trees + checks C20 invariants on the model; each tree is materialised, real `mscript clean` is run, and TLC trace-validates the observed step against MSClean!Clean",
        text="Exhaustive small-scope model checking of the specification plus trace validation of one real execution per enumerated tree: every tree over the property's name set (files, directories, symlinks; depth 2) up to the entry bound is both checked on the model and replayed on the real binary.",
        note="Trusts: the sandbox filesystem, Rust's Path::extension as transcribed in MSClean!Ext, the harness snapshot code. Symlink-to-directory entries with extension mmm are left unspecified (both outcomes accepted).",
        design="5/C20",
    ),
}

# additions of round 2 / 3 (appended to the technique text by bin/mkmanifest)
VMSTAGE = (" Round 2 added a second layer: spec/MSVMV.tla, the bytecode machine on concrete values (60 opcodes: frames and cells, closures, vectors and views, objects, built-ins, "
           "modules and export tables), bound by spec/TraceVMV.tla - a seeded sample of the same programs is executed with the instruction / print / dump hooks; every instruction event "
           "(function, ip, opcode, operand depth, frame depth, activation depth, value on top of the operand stack) and every printed value must be a step of the machine, and the machine's "
           "output on the dumped code must equal MSLang's on the AST (translation validation of the compiler); programs outside the machine's fragment are counted, not judged.")
ADDENDA = {
    "C01": " GenCtl has 19 construct kinds incl. loops whose start / end / step variables are reassigned by the body; GenNames.tla adds 51 identifiers that begin / end with a keyword x 8 roles." + VMSTAGE,
    "C07": " GenClos now has 9 closure instances (incl. captured parameter, closures made in loop iterations and inside a method) x 5 closure kinds; GenCapture.tla adds the exhaustive product of 36 syntactic positions of the single use of a captured variable (incl. later brackets of a multi-bracket index), 10 `modify` targets (incl. a closure, an alias type), 5 callback drivers (map / filter), 12 receiver / assignment-target positions and 7 write forms of the captured variable (`+=`, `-=`, `*=`, `modify`, in a loop / if / nested literal) under callers that own a same-named variable." + VMSTAGE,
    "C08": " GenObj also covers a second module declaring a class of the same name, `Self(..)` in an imported class, list sharing between objects, non-commutative op-assignment on a string field and reads whose right neighbour writes the field." + VMSTAGE,
    "C11": " GenMod also enumerates type-only imports (`import type T from m`), type exports, export-less modules and sub-directory layouts (modules k..n in `sub/`, imported as `sub/m`, `./sub/m`, `m`, `./m`); the second module's name ends with the third module's name (`xm3` / `m3`)." + VMSTAGE,
    "C12": " GenOpt carriers: variable, parameter, function result, list element, object field, result of a built-in (a boxed optional), boxed optional stored in an element / field; 20 uses incl. nested overwrite by `?=`, `or` in an escaped closure, nil on the left of a comparison, the value of `or` / `get` used as an operand." + VMSTAGE,
    "C13": " GenHeap element types: int, str, optional, nested list; also join aliasing, map literals built from list elements, results of filter / map kept and mutated (also of an empty receiver), element-wise equality of boxed optionals; a slot overwritten with a different list of equal contents; (re-binding, mutation) pairs have a reserved share of the pair budget." + VMSTAGE,
    "C15": " GenOrder leaves also read a list element / object field (ELEM, FLD) while a later sibling writes that very slot (PUT, FBUMP); roots include a map literal with a repeated key, a method call and a zero-argument recursive `self()` as a later list element / argument / operand; bool leaves read from a list element / field; `(mkl(n))[ix()]`, `cur[swp()]` (the subscript re-points the indexed variable); `a || self.noisy()` / `a && self.noisy()` inside a method." + VMSTAGE,
    "C17": " GenFail has 20 failure kinds incl. op-assignment with a zero divisor, built-in range errors (substring / delete / insert / radix) and failures on one source line after multi-byte text (the assert column is judged exactly), and range errors on a 50-character receiver with multi-byte characters around byte 32." + VMSTAGE,
    "C02": " Every catalogue expression is evaluated at module level, inside a function literal (captured receivers) and inside a method; int-keyed maps and a mixed fixed-shape list were added; composed programs (the GenCtl pool and the example corpus) are judged for dynamic type errors.",
    "C03": " The fixed-fault list has 42 entries (optional index, function types differing in the optionality of the result, typed / untyped `modify` mismatch, `bool?` conditions, growable-list methods on mixed fixed lists, `typeof` as a name) and a cross-module kind (a same-named class of another module at 5 typed sites, a non-exported class reached through the module or a name import).",
    "C05": " Operands are read from variables, list elements or object fields (deterministic rotation) and the operand slots are read again after the operator: they must be unchanged.",
    "C06": " Negated literals (incl. -0.0) are leaves of the exhaustive level; an unsuffixed literal beyond the int range (2147483648) is in the literal set. The operator directly below the root may also be a comparison (< <= > >= == !=, result bool). Results outside the tower model (a float product that is not finite) are judged by agreement of the renderings alone. Besides the folded and the unfolded rendering every tree is rendered half-folded (every other literal through a variable, both parities): same value and kind. The unfolded renderings are also trace-validated against the value machine spec/MSVMV.tla, whose numeric instructions are MSNum (spec/TraceVMV.tla).",
    "C09": " The example corpus is additionally validated against the value machine spec/MSVMV.tla (per-instruction values, spec/TraceVMV.tla).",
    "C10": " 15 declaration kinds (incl. `const [a, b] = ..`, a const named like a module, a mutable name re-declared const, a module reached through another name) x 19 write forms (incl. one-name unpack, parenthesised paths `(p.ws)[k] += v`, `(ps[k]).v *= v`, `import` re-binding the name).",
    "C16": " GenTotal.tla adds two exhaustive products: 147 boundary / ill-formed / scaling expressions (incl. function-literal arguments, non-ASCII string literals, `Self` outside a class) x 31 syntactic contexts (incl. constructor, closure in a method, argument of a recursive `self(..)` call), and 19 import path shapes x 4 import forms x 7 placements.",
    "C19": " Library names: an absolute path, a relative name containing a backslash, and a bare file name found through the loader search path (LD_LIBRARY_PATH).",
    "C20": " Non-ASCII names are percent-encoded in the specification (TLC's on-disk state queue does not round-trip them).",
    "C04": " The codec alphabet contains NBSP (whitespace for char::is_whitespace, not for ASCII whitespace) and form feed; every program is also compiled over a longer pre-existing output file. Whole programs: the example corpus, generated control-flow programs and programs of the other feature areas (closures, identifiers, objects incl. two-module projects, lists / maps, evaluation order) from the generator specifications; captured names of make_function are compared as a set.",
    "C18": " The codec alphabet contains NBSP and form feed; whole programs as for C04 (single-file ones).",
}

# additions of round 6 (appended after ADDENDA by bin/mkmanifest)
ROUND6 = {
    "C01": " Round 6: 26 construct kinds (loops whose body ends in an unconditional break / return behind the nested part); GenNames has 56 identifiers (incl. names that look like compiler-generated labels) x 10 roles (class name, method name).",
    "C03": " Round 6: three dead-code contexts (the faulted statement follows an unconditional return / break / continue in its block), a value returned from a block of a void function nested in a typed one, a name known only as a sibling method's parameter, slots of function type re-assigned with a function of another signature.",
    "C04": " Round 6: GenSize.tla - one literal of 1 365 .. 70 000 copies of a 1- to 4-byte unit (records and text lines around 4 KiB / 8 KiB / 64 KiB); the entry file is spelled `./main.ms` / `./main.mmm` for every program in which no module imports the entry module; label-like class / method names and a method declared twice are in the pool.",
    "C18": " Round 6: as C04 (GenSize, `./` spelling, label-like names, a method declared twice).",
    "C06": " Round 6: batched rendering - every tree whose folded rendering compiles is also compiled in batches of 40 folded expressions per compilation unit, neighbours differing only in the kinds of their literals, in both orders (what the compiler folds must not depend on what else it folded).",
    "C07": " Round 6: GenCapture family `late_*`: the maker declares a same-named local / typed local / loop counter only after the literals were made.",
    "C08": " Round 6: a class whose constructor parameters and locals are named like its fields, used crosswise and after the fields were set.",
    "C09": " Round 6: interprocedural layer - ExploreVM runs twice; the first pass records how every activation can end (operand-depth interval at `ret` / at the end), the second judges ReturnArityUniform per function (a function that certainly returns a value on one path and certainly none on another breaks the operand shape at its call sites) and gives `call_self` the function's own result count; the pool now also holds the feature generators' programs (GenCapture, GenNames, GenObj, GenHeap, GenOrder) and the fault catalogue (an ill-typed program the compiler accepts is explored like any other).",
    "C10": " Round 6: context `block inside a nested function`; shadowing dimension {none, a same-named local copy `x = x` at the start of the nested function / method - `modify` still denotes the const (rejected), every other form the local (accepted, const unchanged, judged against MSLang) -, a sibling method with a parameter of that name}; module members written from inside function literals and methods.",
    "C11": " Round 6: a second import of the shared module in the same file after its state has changed (by name: bound to the current value; as a module).",
    "C12": " Round 6: 22 uses incl. a bare `get` statement and `get` behind multi-byte text on its source line.",
    "C13": " Round 6: every (re-binding, mutation) pair over nested lists is in the quick level (the depth of sharing of `clone`).",
    "C14": " Round 6: NumTables!ConvFloats - 27 floats around the boundaries of to_int / to_byte / to_bigint (fractional parts sticking out past the last representable integer, +-2^127) and around .5 for round / floor / ceil.",
    "C15": " Round 6: DIVZ - an operand without calls or writes that fails when it is evaluated (`7 / zz > 0`), so that a lost short-circuit shows as a failure; rep / repr - `int * str` and `str * int` with logging operands (operands of different types).",
    "C16": " Round 6: constant arithmetic over 18 boundary operands x 7 operators x 18 operands x 3 contexts (MIN / -1, MIN % -1, shift amounts, zero divisors of every kind); escapes the language does not have in front of 2-, 3- and 4-byte characters.",
    "C17": " Round 6: self-recursive levels (three open activations of one function; plain and tail recursion).",
    "C19": " Round 6: the bytecode function that makes the foreign call was itself called with arguments (fn_args / tail_args): an empty operand stack is still the empty slice.",
    "C20": " Round 6: DIR itself is part of the specification's state (`root`): it is a directory and stays, also when the sweep leaves it empty.",
}

NOT_APPLICABLE = {}

ALL = ["C%02d" % i for i in range(1, 21)]
