"""Single table of claimed checks; bin/mkmanifest renders MANIFEST.json from it."""

CHECKS = {
    "C20": dict(
        level="model_checking",
        technique="TLA+ spec MSClean (one Clean action over an abstract directory tree); TLC BFS enumerates all trees + checks C20 invariants on the model; each tree is materialised, real `mscript clean` is run, and TLC trace-validates the observed step against MSClean!Clean",
        text="Exhaustive small-scope model checking of the specification plus trace validation of one real execution per enumerated tree: every tree over the property's name set (files, directories, symlinks; depth 2) up to the entry bound is both checked on the model and replayed on the real binary.",
        note="Trusts: the sandbox filesystem, Rust's Path::extension as transcribed in MSClean!Ext, the harness snapshot code. Symlink-to-directory entries with extension mmm are left unspecified (both outcomes accepted).",
        design="5/C20",
    ),
}

NOT_APPLICABLE = {}

ALL = ["C%02d" % i for i in range(1, 21)]
