"""Single table of claimed checks; bin/mkmanifest renders MANIFEST.json from it."""

CHECKS = {
    "C09": dict(
        level="model_checking",
        technique="TLA+ spec MSVM (bytecode machine, shape mode: ip, block frames with regions, operand-depth interval); TLC explores every dumped function over all branch outcomes (ExploreVM) checking JumpInRange/PopsOnlyBlockFrames/DonePopsInnermostIfElse/FrameWithinRegion/DepthBounded/OperandShape/ModuleExitsWithEmptyStack; TraceVM trace-validates per-instruction hook traces of the real interpreter against the same successor relation",
        text="Model checking of the real compiler's output: the bytecode is not modelled but loaded (hook H4 dump of what the interpreter's reader produced) and every reachable abstract state of every function is visited for all outcomes of all conditions, so paths no test executes are covered; the machine itself is bound to Function::run by validating instruction-level traces (frame depth and operand depth must agree at every fetch).",
        note="Trusts: the H4 dump and H1 trace hooks report the loader's/interpreter's real state; operand depth is an interval (unknown callee arity widens it, which can only weaken OperandShape); programs explored = example corpus + generator pools, not all programs.",
        design="5/C09",
    ),
    "C20": dict(
        level="model_checking",
        technique="TLA+ spec MSClean (one Clean action over an abstract directory tree); TLC BFS enumerates all trees + checks C20 invariants on the model; each tree is materialised, real `mscript clean` is run, and TLC trace-validates the observed step against MSClean!Clean",
        text="Exhaustive small-scope model checking of the specification plus trace validation of one real execution per enumerated tree: every tree over the property's name set (files, directories, symlinks; depth 2) up to the entry bound is both checked on the model and replayed on the real binary.",
        note="Trusts: the sandbox filesystem, Rust's Path::extension as transcribed in MSClean!Ext, the harness snapshot code. Symlink-to-directory entries with extension mmm are left unspecified (both outcomes accepted).",
        design="5/C20",
    ),
}

NOT_APPLICABLE = {}

ALL = ["C%02d" % i for i in range(1, 21)]
