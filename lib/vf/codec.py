"""Shared machinery of C04 (`run` == `compile`+`execute`) and C18 (raw-text -> transpile -> execute == run)."""
import json
import os
import shutil
import threading
from pathlib import Path

from . import classify, common as C, corpus, gen, render

_tls = threading.local()


def canon_dump(funcs):
    """canonical text of a list of dumped functions (origin/file names dropped)"""
    # (the captured names of make_function - every argument after the first - are a set: the compiler collects them in a HashSet,
    # so their order differs from one compilation to the next)
    arg = lambda i: [i["args"][0]] + sorted(i["args"][1:]) if i["op"] == "make_function" and i["args"] else i["args"]
    # (a file that is loaded twice under two spellings of its path - `./main.mmm` as the entry, `main.mmm` as the target of an
    # import of the entry module by itself - is dumped twice: identical copies of a function count once)
    fs = sorted({json.dumps([f["name"], [[i["id"], arg(i)] for i in f["code"]]], ensure_ascii=False, sort_keys=True) for f in funcs})
    return "[" + ", ".join(fs) + "]"


def make_str_arg(funcs):
    for f in funcs:
        if f["name"] == "__module__":
            for i in f["code"]:
                if i["op"] == "make_str":
                    return i["args"][0] if i["args"] else ""
    return None


STALE = {}


def stale_blob(binary, work):
    """A long, valid main.mmm from an earlier compilation: the output path may already exist (history of the
    directory is part of the input space: a re-compilation must replace the file, not overwrite its head)."""
    if "blob" not in STALE:
        d = C.fresh_dir(Path(work) / "stale")
        body = "".join(f'x{k} = "{"pad" * 20}{k}"\nprint x{k}\n' for k in range(40))
        (d / "main.ms").write_text(body)
        r = C.run_proc([binary, "compile", "main.ms", "--quick"], cwd=d, timeout=20)
        STALE["blob"] = (d / "main.mmm").read_bytes() if r["exit"] == 0 and (d / "main.mmm").exists() else b""
    return STALE["blob"]


def run_path(binary, d, which, timeout=10, stale=b"", pre=""):
    """which in run|exec|text ; d contains main.ms. Returns dict(exit,out,dump,funcs,err).
    pre: how the entry file is spelled on the command lines ("" or "./": the same file either way)."""
    dump = d / f"{which}.dump.ndjson"
    if dump.exists():
        dump.unlink()
    env = dict(MSCRIPT_VERIF_DUMP=str(dump))
    if which == "run":
        r = C.run_proc([binary, "run", pre + "main.ms", "-q"], cwd=d, timeout=timeout, env=env)
    else:
        for f in d.glob("*.mmm"):
            f.unlink()
        if stale:
            (d / "main.mmm").write_bytes(stale)
        if which == "exec":
            rc = C.run_proc([binary, "compile", pre + "main.ms", "--quick"], cwd=d, timeout=timeout)
        else:
            rc = C.run_proc([binary, "compile", pre + "main.ms", "--quick", "--output-format", "raw-text"], cwd=d, timeout=timeout)
            if rc["exit"] == 0 and (d / "main.mmm").exists():
                os.replace(d / "main.mmm", d / "main.transpiled.mmm")
                rt = C.run_proc([binary, "transpile", pre + "main.transpiled.mmm"], cwd=d, timeout=timeout)
                if rt["exit"] != 0 or rt["timeout"]:
                    rc = dict(rt, err="transpile failed: " + rt["err"])
        if rc["exit"] != 0 or rc["timeout"]:
            return dict(exit=rc["exit"] if not rc["timeout"] else 124, out="", dump="", funcs=[], err=C.strip_ansi(rc["err"])[-600:], stage="build",
                        compile_failed="Did not compile" in rc["err"])
        r = C.run_proc([binary, "execute", pre + "main.mmm"], cwd=d, timeout=timeout, env=env)
    funcs = [f for f in corpus.read_ndjson(dump) if f["file"].endswith("main.mmm")]
    return dict(exit=r["exit"] if not r["timeout"] else 124, out=r["out"], dump=canon_dump(funcs), funcs=funcs,
                err=C.strip_ansi(r["err"])[-600:], stage="run", compile_failed="Did not compile" in r["err"])


def slot(root):
    d = getattr(_tls, "dir", None)
    if d is None or not str(d).startswith(str(root)):
        d = Path(root) / f"slot{threading.get_ident()}"
        d.mkdir(parents=True, exist_ok=True)
        _tls.dir = d
    for f in d.iterdir():
        if f.is_file():
            f.unlink()
    return d


def literal_cases(work, maxlen):
    cases, g = gen.run_generator("GenCodec", Path(work) / "gen", dict(MaxLen=maxlen), timeout=1500)
    return cases, g


def observe_literal(binary, root, case, want_text, stale=b""):
    d = slot(root)
    body = "".join(case["body"])
    src = 'print "' + body + '"\nprint "END"\n'
    (d / "main.ms").write_bytes(src.encode("utf-8"))
    run = run_path(binary, d, "run")
    compiled = not run.get("compile_failed")
    ob = dict(id="lit:" + json.dumps(body, ensure_ascii=False), body=case["body"], is_literal_case=True, src=src,
              compiled=compiled, run=run)
    if compiled:
        ob["exec"] = run_path(binary, d, "exec", stale=stale)
        ob["text"] = run_path(binary, d, "text", stale=stale) if want_text else run
        a = make_str_arg(run["funcs"])
        ob["mem_arg"] = list(a) if a is not None else ["<none>"]
    else:
        ob["exec"] = ob["text"] = run
        ob["mem_arg"] = []
    ob["has_text"] = bool(want_text)
    return ob


def observe_program(binary, root, src_path, want_text, pid, stale=b"", pre=""):
    """whole-program equivalence for an existing source file (its directory is copied)."""
    d = slot(root)
    src_path = Path(src_path)
    for f in src_path.parent.iterdir():
        if f.is_file() and f.suffix == ".ms":
            shutil.copy(f, d / f.name)
        elif f.is_dir():
            shutil.copytree(f, d / f.name, dirs_exist_ok=True, ignore=shutil.ignore_patterns("*.mmm"))
    if src_path.name != "main.ms":
        shutil.copy(src_path, d / "main.ms")
    run = run_path(binary, d, "run", timeout=6, pre=pre)
    run2 = run_path(binary, d, "run", timeout=6, pre=pre)
    compiled = not run.get("compile_failed") and not (run["exit"] == 101 and "panicked at compiler" in run["err"])
    stable = run["out"] == run2["out"] and run["exit"] == run2["exit"] and run["exit"] not in (124,)
    ob = dict(id=pid, body=[], is_literal_case=False, src=src_path.read_text(errors="replace"), compiled=compiled and stable, run=run,
              nondeterministic=not stable, mem_arg=[], has_text=bool(want_text))
    if compiled and stable:
        ob["exec"] = run_path(binary, d, "exec", timeout=6, stale=stale, pre=pre)
        ob["text"] = run_path(binary, d, "text", timeout=6, stale=stale, pre=pre) if want_text else run
    else:
        ob["exec"] = ob["text"] = run
    shutil.rmtree(d, ignore_errors=True)
    _tls.dir = None
    return ob


def slim(ob):
    def p(x):
        return dict(exit=x["exit"], out=x["out"], dump=x["dump"])
    return dict(id=ob["id"], body=ob["body"], is_literal_case=ob["is_literal_case"], compiled=ob["compiled"],
                has_text=ob["has_text"], mem_arg=ob["mem_arg"], run=p(ob["run"]), exec=p(ob["exec"]), text=p(ob["text"]))


def judge(work, obs):
    f = Path(work) / "obs.ndjson"
    C.write_ndjson(f, [slim(o) for o in obs])
    r = C.tlc("CheckCodec", "CheckCodec", Path(work) / "judge", env=dict(OBS=str(f)), workers=8, timeout=1500, heap_mb=8000)
    if r.error or r.invariant_violated:
        raise C.ToolError(f"CheckCodec: {r.error or r.invariant_violated}")
    if r.distinct != len(obs):
        raise C.ToolError(f"CheckCodec judged {r.distinct} of {len(obs)}")
    return r


def run_check(pid, tier, want_text):
    from . import progpool
    rep = C.Report(pid, tier, "model_checking")
    binary = C.build()
    work = C.fresh_dir(C.WORK / pid)
    maxlen = 3 if tier == "quick" else 4
    cases, g = literal_cases(work, maxlen)
    root = C.fresh_dir(work / "slots")
    lit = [c for c in cases if c["literal"]]
    not_literal = len(cases) - len(lit)
    # every content is expressible: also run the canonical source text of each enumerated string
    canon = [dict(body=c["canon"], literal=True) for c in cases if c["canon"] != c["body"] and c["canon_literal"]]
    seen = set()
    todo = []
    for c in lit + canon:
        k = "".join(c["body"])
        if k not in seen:
            seen.add(k)
            todo.append(c)
    blob = stale_blob(binary, work)
    # every third case compiles over a longer main.mmm left by an earlier compilation
    obs = C.pmap(lambda kc: observe_literal(binary, root, kc[1], want_text, stale=(blob if kc[0] % 3 == 0 else b"")), list(enumerate(todo)))
    # whole programs: example corpus (+ a sample of generated control-flow programs)
    srcs = corpus.copy_examples(work / "examples")
    pool = progpool.programs(binary, work / "pool", "quick", rep.seed)
    import random
    rnd = random.Random(rep.seed)
    pool = rnd.sample(pool, min(len(pool), 150 if tier == "quick" else 1500))
    # ... and programs of the other feature areas (closures, identifiers, objects, lists / maps, evaluation order)
    feat = progpool.features(binary, work / "features", tier, rep.seed)
    if tier == "quick" and len(feat) > 500:
        feat = rnd.sample(feat, 500)
    big = progpool.sizes(work / "sizes", tier, rep.seed)
    progs = [("sizes/" + str(Path(s).relative_to(work / "sizes" / "p")), s) for s in big] + [(str(Path(s).relative_to(work)), s) for s in srcs] + [("pool/" + str(Path(s).relative_to(work / "pool")), s) for s in pool] \
        + [("features/" + str(Path(s).relative_to(work / "features" / "f")), s) for s in feat]
    if want_text:
        progs = [(i, s) for i, s in progs if "import " not in Path(s).read_text(errors="replace")]
    # (`./` only for programs in which no module imports the entry module: such a module is compiled a second time under the
    # normalised spelling, and the position texts inside its `assert` arguments then name the file differently - not a codec matter)
    import re as _re

    def imports_entry(src):
        src = Path(src)
        entry = src.stem
        for f in src.parent.rglob("*.ms"):
            for line in f.read_text(errors="replace").splitlines():
                if line.lstrip().startswith("import ") and _re.search(r"(^|[\s/])" + _re.escape(entry) + r"\s*$", line):
                    return True
        return False
    has_import = {i for i, s in progs if imports_entry(s)}
    # the feature-area programs (closures, objects with methods that construct their own class, lists / maps, ...) all run under
    # the `./` spelling, every third one of the others
    dotslash = lambda k, i: i not in has_import and (i.startswith("features/") or k % 3 == 1)
    pobs = C.pmap(lambda kx: observe_program(binary, root, kx[1][1], want_text, kx[1][0], stale=(blob if kx[0] % 2 == 0 else b""), pre=("./" if dotslash(kx[0], kx[1][0]) else "")), list(enumerate(progs)))
    allobs = obs + pobs
    r = judge(work, allobs)
    byid = {o["id"]: o for o in allobs}
    tag = "CFOUR" if pid == "C04" else "CEIGHTEEN"
    other = "exec" if pid == "C04" else "text"
    for v in r.prints.get(tag, []):
        o = byid[v["id"]]
        a, b = o["run"], o[other]
        what = (f"{v['id']}: run exit={a['exit']} out={a['out'][:120]!r}; {other} exit={b['exit']} out={b['out'][:120]!r} "
                f"{'(build stage failed: ' + b['err'][-200:] + ')' if b.get('stage') == 'build' else ''}"
                f"{'; loaded bytecode differs' if a['dump'] != b['dump'] else ''}")
        rep.violation(v["id"], what, dict(obs=dict(run=dict(exit=a["exit"], out=a["out"], err=a["err"]), other=dict(exit=b["exit"], out=b["out"], err=b["err"])),
                                          files={"main.ms": o["src"]}, how=f"run vs {other} on main.ms"))
    mism = r.prints.get("MODEL", [])
    for m in mism[:5]:
        C.log(f"   NOTE model/compiler mismatch on {m['id']}: model predicts ok={m['predicted_ok']} arg={m['predicted']}")
    rep.coverage = dict(
        states=g.distinct + r.distinct, transitions=g.generated + r.generated,
        traces_validated_against_impl=len(allobs), literal_bodies_enumerated=len(cases), literals_run=len(obs),
        not_a_single_literal=not_literal, literals_rejected_by_compiler=sum(1 for o in obs if not o["compiled"]),
        programs=len(pobs), programs_with_dot_slash_entry=sum(1 for k, (i, _) in enumerate(progs) if dotslash(k, i)), long_literal_programs=len(big), programs_nondeterministic_excluded=sum(1 for o in pobs if o.get("nondeterministic")),
        programs_not_compiling=sum(1 for o in pobs if not o["compiled"] and not o.get("nondeterministic")),
        model_mismatches=len(mism), compiled_over_a_longer_existing_output=sum(1 for k in range(len(todo)) if k % 3 == 0) + sum(1 for k in range(len(progs)) if k % 2 == 0), spec_theorems_checked=["C04_ArgumentsReadBackAsEmitted", "C18_TextFormRoundTrips", "CanonDecodes"],
        evaluations=len(allobs), distinct_nontrivial=sum(1 for o in obs if any(ch in '"\\ \t\n\r' for ch in o["body"])),
        rule=f"GenCodec.tla BFS: all strings of length <= {maxlen} over the 10-character alphabet of format-special characters, each as literal body (if it is one literal) and via its canonical source text; plus whole programs (example corpus, sample of generated programs of every feature area, GenSize.tla: one literal of 1 365 .. 70 000 copies of a 1- to 4-byte unit - records and text lines around 4 KiB / 8 KiB / 64 KiB; every third program with its entry file spelled `./main.ms` / `./main.mmm`); non-trivial = contains a format-special character",
        exhaustive=True,
        samples=[dict(id=o["id"], run_out=o["run"]["out"][:40], compiled=o["compiled"]) for o in obs[:: max(1, len(obs) // 3)][:3]],
    )
    rep.assumptions = ["dumps come from hook H4 (what each loader actually holds); NUL cannot occur in a source literal",
                       "programs whose two `run` executions differ (hash-map order, addresses, random) are excluded from whole-program comparison"]
    shutil.rmtree(root, ignore_errors=True)
    return rep.finish()
