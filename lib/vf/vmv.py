"""Value-mode bytecode machine (spec/MSVMV.tla) bound to the real interpreter and compiler:
run programs with the instruction / print hooks and the dump hook, hand dump + trace (+ the
program AST) to spec/TraceVMV.tla, collect the verdicts."""
import json
from pathlib import Path

from . import common as C
from . import corpus

KEEP = ("i", "print")


def record(binary, src, prog=None, max_events=6000, timeout=8, mode="run"):
    """Execute `src` (a path) with hooks; returns a TraceVMV case or (None, reason)."""
    src = Path(src)
    r, events, funcs, partial = corpus.run_traced(binary, src, mode, timeout=timeout, max_events=max_events, top=True)
    if partial or r["timeout"]:
        return None, "partial trace (timeout / crash / too long)"
    if not events or not funcs:
        return None, "no trace"
    index = {}
    for k, f in enumerate(funcs):
        f["qn"] = f["file"] + "#" + f["name"]
        index[f["qn"]] = k + 1
    evs = []
    entry = None
    for e in events:
        k = e.get("e")
        if k == "enter" and entry is None:
            entry = index.get(e["fn"])
        if k == "i":
            fi = index.get(e["fn"])
            if fi is None:
                return None, "trace names a function that is not in the dump"
            ev = dict(e="i", fi=fi, ip=e["ip"], op=e["op"], fd=e["fd"], od=e["od"], ad=e["ad"])
            if "top" in e:
                ev["top"] = e["top"]
            evs.append(ev)
        elif k == "print":
            evs.append(dict(e="print", kind=e.get("kind", ""), text=e.get("text", "")))
    if entry is None:
        return None, "no entry"
    return dict(id=str(src), prog=prog if prog is not None else dict(body=[]), judge_src=prog is not None,
                funcs=[dict(qn=f["qn"], file=f["file"], name=f["name"], code=f["code"]) for f in funcs], entry=entry,
                events=evs, exit=r["exit"]), ""


def validate(work, cases, workers=12, timeout=1500):
    work = Path(work)
    work.mkdir(parents=True, exist_ok=True)
    C.write_ndjson(work / "vmv.ndjson", cases)
    r = C.tlc("TraceVMV", "TraceVMV", work / "tlc", env=dict(CASES=str(work / "vmv.ndjson")), workers=workers, timeout=timeout, heap_mb=12000)
    if r.error or r.invariant_violated:
        raise C.ToolError(f"TraceVMV: {r.error or r.invariant_violated}")
    acc = {a["id"] for a in r.prints.get("ACCEPT", [])}
    oom = {}
    for o in r.prints.get("OOM", []):
        oom.setdefault(o["id"], o)
    stuck = {}
    for s in r.prints.get("STUCK", []):
        if s["id"] not in stuck or s["l"] > stuck[s["id"]]["l"]:
            stuck[s["id"]] = s
    xl = {}
    for x in r.prints.get("XLATE", []):
        xl.setdefault(x["id"], x)
    return dict(accepted=acc, oom=oom, stuck={k: v for k, v in stuck.items() if k not in acc and k not in oom}, xlate=xl, tlc=r)


def stage(binary, work, cases, limit, rnd, max_events=6000, workers=12):
    """cases: judged L1 cases (dicts with id, prog, src | files).  Samples `limit` single-file cases,
    records dump + trace of `run`, validates against MSVMV and (for the AST) MSLang.
    Returns dict(sampled, recorded, skipped, accepted, oom, stuck, xlate, states, transitions)."""
    work = Path(work)
    pool = [c for c in cases if not c.get("rejected")]
    if len(pool) > limit:
        pool = rnd.sample(pool, limit)
    root = C.fresh_dir(work / "p")

    def one(kc):
        k, c = kc
        d = root / str(k)
        d.mkdir(parents=True, exist_ok=True)
        prog = c.get("prog")        # None: a source without an AST - trace validation only
        if prog and "mods" in prog:
            for name, text in c["files"].items():
                (d / name).parent.mkdir(parents=True, exist_ok=True)
                (d / name).write_text(text)
            entry = c["prog"]["mods"][c["prog"]["entry"] - 1]["name"] + ".ms"
        else:
            (d / "main.ms").write_text(c["src"])
            entry = "main.ms"
        rec, why = record(binary, d / entry, prog=prog, max_events=max_events)
        if rec is not None:
            rec["id"] = c["id"]
        return c, rec, why
    recs = C.pmap(one, list(enumerate(pool)))
    good = [r for _, r, _ in recs if r is not None]
    skipped = [(c["id"], why) for c, r, why in recs if r is None]
    res = validate(work, good, workers=workers) if good else dict(accepted=set(), oom={}, stuck={}, xlate={}, tlc=None)
    missing = [r["id"] for r in good if r["id"] not in res["accepted"] and r["id"] not in res["oom"] and r["id"] not in res["stuck"]]
    if missing:
        raise C.ToolError(f"TraceVMV gave no verdict for {len(missing)} traces, e.g. {missing[:3]}")
    ops = {}
    for r in good:
        if r["id"] in res["accepted"]:
            for e in r["events"]:
                if e["e"] == "i":
                    ops[e["op"]] = ops.get(e["op"], 0) + 1
    res.update(sampled=len(pool), recorded=len(good), skipped=skipped, events=sum(len(r["events"]) for r in good), ops=ops,
               by_id={c["id"]: c for c in pool},
               states=res["tlc"].distinct if res["tlc"] else 0, transitions=res["tlc"].generated if res["tlc"] else 0)
    return res


def report(rep, res, what):
    """Turn stage verdicts into violations of the calling check."""
    for cid, s in res["stuck"].items():
        c = res["by_id"][cid]
        rep.violation(f"vm-trace-rejected {cid}",
                      f"{what}: the real interpreter's execution is not a behaviour of the value machine MSVMV: event #{s['l']} {s['event']}; machine at {s['top']} frames={s['fd']} activations={s['ad']} status={s['st']} {s['why']}",
                      dict(case=cid, verdict=s, vm=True, prog=c.get("prog"), files=c.get("files") or {"main.ms": c["src"]}, how="record MSCRIPT_VERIF_TRACE + MSCRIPT_VERIF_DUMP of `mscript run main.ms -q`, validate with spec/TraceVMV.tla"))
    for cid, x in res["xlate"].items():
        c = res["by_id"][cid]
        rep.violation(f"xlate {cid}",
                      f"{what}: the compiled code, executed by the value machine, prints {x['vm_out']} ({x['st']} {x['why']}) but the source semantics prescribes {x['src_out']} ({x['src_status']})",
                      dict(case=cid, verdict=x, vm=True, prog=c.get("prog"), files=c.get("files") or {"main.ms": c["src"]}, how="compile, dump (MSCRIPT_VERIF_DUMP), run spec/MSVMV.tla on the dump and MSLang!Run on the AST"))
    return dict(vm_traces_sampled=res["sampled"], vm_traces_validated=res["recorded"], vm_traces_accepted=len(res["accepted"]),
                vm_out_of_model=len(res["oom"]), vm_out_of_model_reasons=sorted({o["why"] for o in res["oom"].values()})[:12],
                vm_not_recorded=len(res["skipped"]), vm_events=res["events"], vm_opcodes_exercised=res["ops"],
                vm_xlate_disagreements=len(res["xlate"]))
