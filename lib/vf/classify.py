"""Closed table: stderr of the real binary -> dynamic failure class of the language."""
import re

TABLE = [
    (r"An explicit assertion failed", "assert"),
    (r"unwrap of `nil`|nil object, looking up|LOGIC ERROR IN CODE >> .*nil", "nil"),
    (r"out of bounds|removal index|could not fit in an int|index out of range|out of range for slice|byte index \d+ is out of|the range is reversed|not on a character boundary", "index"),
    (r"key error", "key"),
    (r"/ by 0|% by 0|attempt to divide by zero|attempt to calculate the remainder with a divisor of zero|division by zero", "zerodiv"),
    (r"attempt to (add|subtract|multiply|negate|shift left|shift right) with overflow|attempt to (divide|calculate the remainder) with overflow|overflow", "overflow"),
    (r"stack overflow|has overflowed its stack", "stack"),
    (r"cannot be made into|could not be used to index|invalid power|is an invalid radix|radix must lie|is an invalid index", "conversion"),
    (r"is invalid\. \(valid ops|cannot compare|is not a function|does not exist on|load before store|cannot index with|not a HeapPrimitive|cannot negate|can only negate|can only test booleans|boolean comparison on a non-boolean|mismatched types in assignment|Cannot perform a vector operation on a non-vector|not a vector|non-map|invalid binary operation|not an? (Int|Float|BigInt|Bool)|has not been mapped|argument does not exist|unreachable code", "dyntype"),
]


def classify(res):
    """res = run_proc result. Returns (fclass, panic:bool)."""
    if res.get("timeout"):
        return "timeout", False
    if res["exit"] == 0 and not res.get("sig"):
        return "", False
    err = res["err"]
    panic = "panicked at" in err or res["exit"] == 101
    if res.get("sig") or res["exit"] == 134:
        if "overflowed its stack" in err:
            return "stack", True
        return "signal", True
    for pat, cls in TABLE:
        if re.search(pat, err):
            return cls, panic
    if "Did not compile successfully" in err:
        return "compile", False
    return "unclassified", panic


def out_lines(stdout, cap=1500):
    lines = stdout.split("\n")[:-1] if stdout.endswith("\n") else (stdout.split("\n") if stdout else [])
    if len(lines) > cap:        # a runaway program: keep the head, mark the cut (no prescribed output is this long)
        lines = lines[:cap] + [f"...[{len(lines) - cap} more lines]"]
    return lines
