"""bin/check <ID> --replay <dir>: re-execute one recorded violation on the current tree.

A replay directory (replays/<ID>/<hash>/) holds case.json = {property, key, what, payload} and the
files of the case.  The files are materialised in a scratch directory and run on the freshly built
binary; the case counts as *reproduced* (VIOLATION line, exit 1) when

  * the payload carries the specification's verdict (L1 family: exp_out / exp_status, computed by
    TLC when the violation was reported) and the observed output / outcome still differs from it, or
  * the payload carries the recorded observation only and the binary still behaves as recorded
    (same exit class and same output), or
  * for C16: the compiler still ends in anything but success / diagnostics.

Exit 0 = not reproduced on the current tree, 2 = this kind of case cannot be replayed alone (the
check regenerates it deterministically from the seed recorded in the evidence file).
"""
import json
import shutil
from pathlib import Path

from . import classify, common as C


def _run_ms(binary, d, entry):
    obs = {}
    r = C.run_proc([binary, "run", entry, "-q"], cwd=d, timeout=20)
    obs["run"] = r
    for f in d.rglob("*.mmm"):
        f.unlink()
    rc = C.run_proc([binary, "compile", entry, "--quick"], cwd=d, timeout=20)
    if rc["exit"] == 0 and not rc["timeout"]:
        obs["exec"] = C.run_proc([binary, "execute", entry[:-3] + ".mmm"], cwd=d, timeout=20)
    else:
        obs["exec"] = rc
    obs["compile"] = rc
    return obs


def replay(pid, path):
    path = Path(path)
    cj = path / "case.json" if path.is_dir() else path
    case = json.loads(cj.read_text())
    payload = case.get("payload", {})
    files = payload.get("files") or {}
    print(f"replay of {case.get('property', pid)}: {case.get('key', '')}")
    print("  recorded:", case.get("what", "")[:600])
    if not files:
        print("  this case has no files of its own; re-run the check (it regenerates the case from its seed)")
        return 2
    binary = C.build()
    d = C.fresh_dir(C.WORK / "replay" / C.short_hash(str(cj)))
    for name, text in files.items():
        p = d / name
        p.parent.mkdir(parents=True, exist_ok=True)
        p.write_text(text)
    names = list(files)
    reproduced = False
    if any(n.endswith(".transpiled.mmm") for n in names):
        n = next(n for n in names if n.endswith(".transpiled.mmm"))
        t = C.run_proc([binary, "transpile", n], cwd=d, timeout=20)
        r = C.run_proc([binary, "execute", n.replace(".transpiled.mmm", ".mmm")], cwd=d, timeout=20) if t["exit"] == 0 else t
        out = classify.out_lines(r["out"])
        print(f"  now: transpile exit={t['exit']} execute exit={r['exit']} out={out} err={C.strip_ansi(r['err'])[-300:]!r}")
        exp = payload.get("expected", {})
        rec = payload.get("observed", {})
        if "out" in exp:
            ok = out == exp["out"] and ((r["exit"] == 0) == (exp.get("status") != "failed"))
            reproduced = not ok
        else:
            reproduced = rec.get("out") == out and rec.get("exit") == r["exit"]
    else:
        ms = [n for n in names if n.endswith(".ms")]
        if not ms:
            print("  no source file in the case")
            return 2
        entry = "main.ms" if "main.ms" in ms else ms[0]
        obs = _run_ms(binary, d, entry)
        for k in ("run", "exec"):
            r = obs[k]
            print(f"  now [{k}]: exit={r['exit']}{' TIMEOUT' if r['timeout'] else ''} out={classify.out_lines(r['out'])[:40]} err={C.strip_ansi(r['err'])[-300:]!r}")
        v = payload.get("verdict") or {}
        if payload.get("vm"):
            # a verdict of the value-machine stage: record the run again and let TraceVMV decide
            from . import vmv
            prog = payload.get("prog")
            if prog and "mods" in prog:
                entry = prog["mods"][prog["entry"] - 1]["name"] + ".ms"
            rec, why = vmv.record(binary, d / entry, prog=prog)
            if rec is None:
                print("  the run could not be recorded:", why)
                reproduced = True
            else:
                rec["id"] = "replay"
                res = vmv.validate(d / "_vmv", [rec], workers=2, timeout=600)
                print("  TraceVMV:", "accepted" if "replay" in res["accepted"] else ("out of model" if "replay" in res["oom"] else "rejected"),
                      res["stuck"].get("replay") or res["xlate"].get("replay") or "")
                reproduced = "replay" not in res["accepted"] and "replay" not in res["oom"] or "replay" in res["xlate"]
        elif pid == "C16":
            r = obs["compile"]
            reproduced = r["timeout"] or r["sig"] != 0 or r["exit"] not in (0, 1) or "panicked at" in r["err"]
        elif "exp_out" in v:
            for k in ("run", "exec"):
                r = obs[k]
                fclass, _ = classify.classify(r)
                out = classify.out_lines(r["out"]) if fclass != "compile" else []
                good = out == v["exp_out"] and ((r["exit"] == 0) == (v.get("exp_status") == "ok")) and \
                    (v.get("exp_status") == "ok" or fclass == v.get("exp_status"))
                if not good:
                    reproduced = True
        else:
            rec = payload.get("observed") or payload.get("obs") or {}
            if isinstance(rec, list):
                rec = rec[0] if rec else {}
            r = obs["run"]
            same_exit = ("exit" in rec and rec["exit"] == r["exit"])
            same_out = ("out" not in rec) or rec["out"] == classify.out_lines(r["out"])[:len(rec["out"])]
            reproduced = same_exit and same_out
            print("  (no specification verdict in this payload: compared with the recorded observation)")
    shutil.rmtree(d, ignore_errors=True)
    if reproduced:
        print(f"VIOLATION property={pid} replay={path}")
        return 1
    print("  not reproduced on the current tree")
    return 0
