------------------------------- MODULE GenCodec -------------------------------
(* Enumerates every string up to MaxLen over the alphabet of characters that are *)
(* special to the bytecode file formats.  Each string t is used twice:           *)
(*  - as an instruction argument (and, cut at every pair of positions, as a      *)
(*    vector of up to three arguments): the round-trip theorems of MSCodec are   *)
(*    checked by TLC in every state;                                             *)
(*  - as the body of a source string literal: emitted as a case for the real     *)
(*    pipelines, with the model's prediction of what the literal decodes to.     *)
EXTENDS MSCodec, Json

CONSTANT MaxLen

Alphabet == {QUOTE, BSL, SP, TAB, LF, CR, "\f", "n", "r", "t", "é", NBSP, ";"}     \* "\f": a whitespace character no writer escapes; ";": comment character of assemblers

(* long arguments with one multi-byte character at every offset around the width of a terminal-style preview / buffer *)
Fill(k) == [i \in 1..k |-> "a"]
LongBodies == {Fill(k) \o <<"é", "z", "z">> : k \in 16..52} \cup {Fill(k) \o <<"日", "z">> : k \in 24..34}

VARIABLE t
Init == t = <<>> \/ t \in LongBodies
Next == Len(t) < MaxLen /\ \E c \in Alphabet : t' = Append(t, c)

Cut(i, j) == <<SubSeq(t, 1, i), SubSeq(t, i + 1, j), SubSeq(t, j + 1, Len(t))>>

C04_ArgumentsReadBackAsEmitted ==
    /\ RoundTripBin(<<t>>)
    /\ \A i \in 0..Len(t) : \A j \in i..Len(t) : RoundTripBin(Cut(i, j))
C18_TextFormRoundTrips ==
    /\ RoundTripText(<<t>>)
    /\ \A i \in 0..Len(t) : \A j \in i..Len(t) : RoundTripText(Cut(i, j))

(* canonical source text of a literal whose content is t (every content is expressible) *)
RECURSIVE SrcFrom(_, _)
SrcFrom(a, i) == IF i > Len(a) THEN <<>>
                 ELSE (CASE a[i] = BSL -> <<BSL, BSL>> [] a[i] = QUOTE -> <<BSL, QUOTE>> [] OTHER -> <<a[i]>>) \o SrcFrom(a, i + 1)
Canon == SrcFrom(t, 1)
(* (a content ending in a backslash has no source literal: pest pairs the last backslash *)
(* of the body with the closing quote)                                                    *)
CanonDecodes == (t = <<>> \/ t[Len(t)] # BSL) => (Decode(Canon).ok /\ Decode(Canon).arg = t /\ IsLiteralBody(Canon, 1))

EmitCase ==
    PrintT("CASE " \o ToJson([body |-> t, literal |-> IsLiteralBody(t, 1),
                              dec_ok |-> Decode(t).ok, dec |-> Decode(t).arg, canon |-> Canon,
                              canon_literal |-> IsLiteralBody(Canon, 1)]))
=============================================================================
