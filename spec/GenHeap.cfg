CONSTANT MaxLen = 1
CONSTANT Modes = {"list", "map"}
INIT Init
NEXT Next
INVARIANT EmitCase
