CONSTANT MaxLen = 2
INIT InitSel
NEXT Stutter
INVARIANT EmitCase
