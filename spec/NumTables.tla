------------------------------ MODULE NumTables ------------------------------
EXTENDS Integers
(* Boundary-value sets per numeric kind (min, min+1, -1, 0, 1, max-1, max, powers of two and *)
(* neighbours, 0.5, large and tiny floats).  Floats are given exactly as m * 2^e together     *)
(* with a decimal text that parses to exactly that double.  Generated once from             *)
(* lib/vf/numcases.py; the table is data, not logic.                                         *)
IntVals == <<[kind |-> "int", dec |-> "-2147483648"], [kind |-> "int", dec |-> "-2147483647"], [kind |-> "int", dec |-> "-65537"], [kind |-> "int", dec |-> "-2"], [kind |-> "int", dec |-> "-1"], [kind |-> "int", dec |-> "0"], [kind |-> "int", dec |-> "1"], [kind |-> "int", dec |-> "2"], [kind |-> "int", dec |-> "3"], [kind |-> "int", dec |-> "31"], [kind |-> "int", dec |-> "32"], [kind |-> "int", dec |-> "255"], [kind |-> "int", dec |-> "256"], [kind |-> "int", dec |-> "65536"], [kind |-> "int", dec |-> "1073741824"], [kind |-> "int", dec |-> "2147483646"], [kind |-> "int", dec |-> "2147483647"]>>
BigVals == <<[kind |-> "bigint", dec |-> "-170141183460469231731687303715884105728"], [kind |-> "bigint", dec |-> "-170141183460469231731687303715884105727"], [kind |-> "bigint", dec |-> "-18446744073709551616"], [kind |-> "bigint", dec |-> "-2147483649"], [kind |-> "bigint", dec |-> "-1"], [kind |-> "bigint", dec |-> "0"], [kind |-> "bigint", dec |-> "1"], [kind |-> "bigint", dec |-> "2"], [kind |-> "bigint", dec |-> "127"], [kind |-> "bigint", dec |-> "128"], [kind |-> "bigint", dec |-> "2147483648"], [kind |-> "bigint", dec |-> "4294967296"], [kind |-> "bigint", dec |-> "4294967297"], [kind |-> "bigint", dec |-> "-4294967295"], [kind |-> "bigint", dec |-> "18446744073709551618"], [kind |-> "bigint", dec |-> "9007199254740993"], [kind |-> "bigint", dec |-> "9223372036854775808"], [kind |-> "bigint", dec |-> "18446744073709551616"], [kind |-> "bigint", dec |-> "85070591730234615865843651857942052864"], [kind |-> "bigint", dec |-> "170141183460469231731687303715884105726"], [kind |-> "bigint", dec |-> "170141183460469231731687303715884105727"]>>
ByteVals == <<[kind |-> "byte", dec |-> "0"], [kind |-> "byte", dec |-> "1"], [kind |-> "byte", dec |-> "2"], [kind |-> "byte", dec |-> "7"], [kind |-> "byte", dec |-> "8"], [kind |-> "byte", dec |-> "127"], [kind |-> "byte", dec |-> "128"], [kind |-> "byte", dec |-> "254"], [kind |-> "byte", dec |-> "255"]>>
FloatVals == <<[kind |-> "float", cls |-> "fin", neg |-> FALSE, m |-> "0", e |-> 0, txt |-> "0.0"],
      [kind |-> "float", cls |-> "fin", neg |-> FALSE, m |-> "4503599627370496", e |-> -53, txt |-> "0.5"],
      [kind |-> "float", cls |-> "fin", neg |-> FALSE, m |-> "4503599627370496", e |-> -52, txt |-> "1.0"],
      [kind |-> "float", cls |-> "fin", neg |-> FALSE, m |-> "6755399441055744", e |-> -52, txt |-> "1.5"],
      [kind |-> "float", cls |-> "fin", neg |-> FALSE, m |-> "4503599627370496", e |-> -51, txt |-> "2.0"],
      [kind |-> "float", cls |-> "fin", neg |-> FALSE, m |-> "6755399441055744", e |-> -51, txt |-> "3.0"],
      [kind |-> "float", cls |-> "fin", neg |-> TRUE, m |-> "4503599627370496", e |-> -53, txt |-> "-0.5"],
      [kind |-> "float", cls |-> "fin", neg |-> TRUE, m |-> "4503599627370496", e |-> -52, txt |-> "-1.0"],
      [kind |-> "float", cls |-> "fin", neg |-> TRUE, m |-> "5629499534213120", e |-> -51, txt |-> "-2.5"],
      [kind |-> "float", cls |-> "fin", neg |-> FALSE, m |-> "7205759403792794", e |-> -56, txt |-> "0.1"],
      [kind |-> "float", cls |-> "fin", neg |-> FALSE, m |-> "8000000000000000", e |-> -3, txt |-> "1000000000000000.0"],
      [kind |-> "float", cls |-> "fin", neg |-> FALSE, m |-> "4503599627370496", e |-> 1, txt |-> "9007199254740992.0"],
      [kind |-> "float", cls |-> "fin", neg |-> FALSE, m |-> "4503599627370496", e |-> -21, txt |-> "2147483648.0"],
      [kind |-> "float", cls |-> "fin", neg |-> FALSE, m |-> "4503599627370496", e |-> 11, txt |-> "9.223372036854776e+18"],
      [kind |-> "float", cls |-> "fin", neg |-> FALSE, m |-> "5010420900022432", e |-> 971, txt |-> "1e+308"],
      [kind |-> "float", cls |-> "fin", neg |-> FALSE, m |-> "9007199254740991", e |-> 971, txt |-> "1.7976931348623157e+308"],
      [kind |-> "float", cls |-> "fin", neg |-> FALSE, m |-> "4503599627370496", e |-> -1074, txt |-> "2.2250738585072014e-308"],
      [kind |-> "float", cls |-> "fin", neg |-> FALSE, m |-> "4503599627370496", e |-> -1126, txt |-> "5e-324"],
      [kind |-> "float", cls |-> "fin", neg |-> TRUE, m |-> "5010420900022432", e |-> 971, txt |-> "-1e+308"],
      [kind |-> "float", cls |-> "fin", neg |-> FALSE, m |-> "4503599627894784", e |-> -20, txt |-> "4294967296.5"]>>
(* floats around the boundaries of the conversions (to_int / to_byte / to_bigint truncate toward zero and fail only if the   *)
(* truncated value does not fit; round / floor / ceil at .5 and next to the integers); same record shape as FloatVals          *)
ConvFloats == <<[kind |-> "float", cls |-> "fin", neg |-> FALSE, m |-> "9007199252643840", e |-> -22, txt |-> "2147483647.5"],
      [kind |-> "float", cls |-> "fin", neg |-> FALSE, m |-> "9007199250546688", e |-> -22, txt |-> "2147483647.0"],
      [kind |-> "float", cls |-> "fin", neg |-> FALSE, m |-> "9007199248449536", e |-> -22, txt |-> "2147483646.5"],
      [kind |-> "float", cls |-> "fin", neg |-> TRUE, m |-> "4503599628419072", e |-> -21, txt |-> "-2147483648.5"],
      [kind |-> "float", cls |-> "fin", neg |-> TRUE, m |-> "4503599627370496", e |-> -21, txt |-> "-2147483648.0"],
      [kind |-> "float", cls |-> "fin", neg |-> TRUE, m |-> "4503599629467648", e |-> -21, txt |-> "-2147483649.0"],
      [kind |-> "float", cls |-> "fin", neg |-> FALSE, m |-> "4503599628419072", e |-> -21, txt |-> "2147483648.5"],
      [kind |-> "float", cls |-> "fin", neg |-> FALSE, m |-> "8998403161718784", e |-> -45, txt |-> "255.75"],
      [kind |-> "float", cls |-> "fin", neg |-> FALSE, m |-> "8972014882652160", e |-> -45, txt |-> "255.0"],
      [kind |-> "float", cls |-> "fin", neg |-> FALSE, m |-> "8989607068696576", e |-> -45, txt |-> "255.5"],
      [kind |-> "float", cls |-> "fin", neg |-> FALSE, m |-> "4503599627370496", e |-> -44, txt |-> "256.0"],
      [kind |-> "float", cls |-> "fin", neg |-> TRUE, m |-> "4503599627370496", e |-> -54, txt |-> "-0.25"],
      [kind |-> "float", cls |-> "fin", neg |-> TRUE, m |-> "6755399441055744", e |-> -53, txt |-> "-0.75"],
      [kind |-> "float", cls |-> "fin", neg |-> FALSE, m |-> "6755399441055744", e |-> -53, txt |-> "0.75"],
      [kind |-> "float", cls |-> "fin", neg |-> FALSE, m |-> "8972014882652160", e |-> -46, txt |-> "127.5"],
      [kind |-> "float", cls |-> "fin", neg |-> FALSE, m |-> "5242880000000000", e |-> -19, txt |-> "10000000000.0"],
      [kind |-> "float", cls |-> "fin", neg |-> TRUE, m |-> "5242880000000000", e |-> -19, txt |-> "-10000000000.0"],
      [kind |-> "float", cls |-> "fin", neg |-> FALSE, m |-> "4503599627370496", e |-> 75, txt |-> "170141183460469231731687303715884105728.0"],
      [kind |-> "float", cls |-> "fin", neg |-> FALSE, m |-> "9007199254740991", e |-> 74, txt |-> "170141183460469212842221372237303250944.0"],
      [kind |-> "float", cls |-> "fin", neg |-> TRUE, m |-> "4503599627370496", e |-> 75, txt |-> "-170141183460469231731687303715884105728.0"],
      [kind |-> "float", cls |-> "fin", neg |-> TRUE, m |-> "4503599627370497", e |-> 75, txt |-> "-170141183460469269510619166673045815296.0"],
      [kind |-> "float", cls |-> "fin", neg |-> FALSE, m |-> "5629499534213120", e |-> -51, txt |-> "2.5"],
      [kind |-> "float", cls |-> "fin", neg |-> FALSE, m |-> "7881299347898368", e |-> -51, txt |-> "3.5"],
      [kind |-> "float", cls |-> "fin", neg |-> TRUE, m |-> "7881299347898368", e |-> -51, txt |-> "-3.5"],
      [kind |-> "float", cls |-> "fin", neg |-> FALSE, m |-> "5066549580791808", e |-> -50, txt |-> "4.5"],
      [kind |-> "float", cls |-> "fin", neg |-> FALSE, m |-> "9007199254740991", e |-> -54, txt |-> "0.499999999999999944488848768742172978818416595458984375"],
      [kind |-> "float", cls |-> "fin", neg |-> FALSE, m |-> "4503599627370498", e |-> 0, txt |-> "4503599627370498.0"]>>
QuickIdx == [int |-> {1, 5, 6, 7, 10, 17}, bigint |-> {1, 5, 6, 7, 14, 17}, byte |-> {1, 2, 5, 9}, float |-> {1, 2, 9, 12, 15, 18}]
=============================================================================
