------------------------------- MODULE GenNames -------------------------------
(* Generator for C01: an identifier is a maximal run of letters, digits and `_`  *)
(* that is not itself a keyword - in particular a name may *begin* or *end* with *)
(* a keyword (`constant`, `importer`, `nilx`, `my_const`).  Each name is put in   *)
(* every role a name can play; the programs are ordinary core programs judged by  *)
(* MSLang (to which a name is just a string).                                     *)
EXTENDS Ast, TLC, Json

Names == {"constant", "const_", "modifyx", "modifier", "exporter", "export1", "importer", "imports", "nilx", "nil_", "nile",
          "printer", "print_", "returned", "iffy", "elsewhere", "whiley", "fromage", "tox", "throughput", "stepper", "typed", "type_",
          "classy", "fnx", "selfish", "self_", "getter", "get_", "notx", "truex", "falsey", "asserted", "breaker", "continued", "orx", "isx", "mapper", "typeofx",
          "xconst", "my_const", "xnil", "ximport", "xexport", "xmodify", "a1", "_x", "x_", "__", "A", "Zz9",
          \* names that look like the labels the compiler gives to the functions it generates
          "__fn0", "__fn1", "__fn", "__module__", "__module"}
Roles == {"var", "typed", "param", "counter", "fnname", "listvar", "captured", "optional", "classname", "method", "method_twice"}
\* "method_twice": a class that declares the method twice.  The language does not say which declaration counts (the implementation
\* keeps the last one), so C01 leaves these programs out; C04 / C18 use them: whatever `run` does, `execute` must do as well.
(* `__module__` and `__fn<n>` cannot name a class (a class is compiled to a function of its name, and these are the names of *)
(* the functions the compiler generates): a diagnostic since the repair of C01-class-named-like-a-generated-function         *)
Reserved == {"__fn0", "__fn1", "__module__"}

VARIABLES name, role
Init == name \in Names /\ role \in Roles /\ ~(role = "classname" /\ name \in Reserved)
Next == UNCHANGED <<name, role>>

N == V(name)
Body ==
    CASE role = "var" -> <<Let(name, I(5)), Print(N), Assign(N, "+", I(2)), Let(name, Bin("*", N, I(2))), Print(N), Print(Bin("-", N, I(1))), Print(Neg(N))>>
      [] role = "typed" -> <<LetT(name, "int", I(5)), Print(N), LetT(name, "int", I(6)), Print(Bin("==", N, I(6)))>>
      [] role = "param" -> <<Let("f", Fn("f", <<P(name, "int"), P("other", "int")>>, "int", <<Ret(Bin("+", Bin("*", N, I(10)), V("other")))>>)), Print(Call(V("f"), <<I(1), I(2)>>))>>
      [] role = "counter" -> <<From(I(0), I(3), FALSE, <<>>, name, <<Print(N)>>), From(I(1), I(2), TRUE, <<I(1)>>, name, <<Print(Bin("*", N, N))>>)>>
      [] role = "fnname" -> <<Let(name, Fn(name, <<P("q", "int")>>, "int", <<If(Bin("<=", V("q"), I(0)), <<Ret(I(0))>>), Ret(Bin("+", V("q"), I(1)))>>)),
                              Print(Call(N, <<I(3)>>)), Print(Call(N, <<Call(N, <<I(0)>>)>>))>>
      [] role = "listvar" -> <<LetT(name, "[int...]", List(<<I(1), I(2)>>)), ExprS(MCall(N, "push", <<I(3)>>)), Let("k0", I(0)), Print(Idx(N, V("k0"))),
                               Assign(Idx(N, V("k0")), "+", I(4)), Print(N), Print(MCall(N, "len", <<>>))>>
      [] role = "captured" -> <<Let("mk", Fn("mk", <<>>, "fn() -> int", <<Let(name, I(3)), Ret(Fn("lit", <<>>, "int", <<Modify(name, Bin("+", N, I(1))), Ret(N)>>))>>)),
                                Let("g", Call(V("mk"), <<>>)), Print(Call(V("g"), <<>>)), Print(Call(V("g"), <<>>))>>
      [] role = "classname" ->
           <<[k |-> "class", n |-> name, export |-> FALSE, fields |-> <<[n |-> "v", ty |-> "int"]>>,
              ctor |-> <<[ps |-> <<>>, b |-> <<Assign(Fld(Self, "v"), "=", I(42))>>]>>,
              methods |-> <<[n |-> "val", ps |-> <<>>, rt |-> "int", b |-> <<Ret(Fld(Self, "v"))>>]>>],
             Let("lam", Fn("lam", <<>>, "int", <<Ret(I(20))>>)), Let("lam2", Fn("lam2", <<>>, "int", <<Ret(I(21))>>)),
             Let("ob", New(name, <<>>)), Print(MCall(V("ob"), "val", <<>>)), Print(Call(V("lam"), <<>>)), Print(Call(V("lam2"), <<>>))>>
      [] role = "method" ->
           <<[k |-> "class", n |-> "KM", export |-> FALSE, fields |-> <<>>, ctor |-> <<>>,
              methods |-> <<[n |-> name, ps |-> <<P("q", "int")>>, rt |-> "int", b |-> <<Ret(Bin("+", V("q"), I(7)))>>]>>],
             Let("lam", Fn("lam", <<>>, "int", <<Ret(I(20))>>)),
             Let("ob", New("KM", <<>>)), Print(MCall(V("ob"), name, <<I(1)>>)), Print(Call(V("lam"), <<>>))>>
      [] role = "method_twice" ->
           <<[k |-> "class", n |-> "KM", export |-> FALSE, fields |-> <<>>, ctor |-> <<>>,
              methods |-> <<[n |-> name, ps |-> <<P("q", "int")>>, rt |-> "int", b |-> <<Ret(Bin("+", V("q"), I(7)))>>],
                            [n |-> name, ps |-> <<P("q", "int")>>, rt |-> "int", b |-> <<Ret(Bin("*", V("q"), I(100)))>>]>>],
             Let("ob", New("KM", <<>>)), Print(MCall(V("ob"), name, <<I(3)>>))>>
      [] role = "optional" -> <<LetT(name, "int?", Nil), Print(Bin("==", N, Nil)), Print(Or(N, I(4))), LetT(name, "int?", I(8)), Print(Get(N)), Print(Or(N, I(4)))>>

EmitCase == PrintT("CASE " \o ToJson([name |-> name, role |-> role, prog |-> [body |-> <<Print(S("S"))>> \o Body \o <<Print(S("E"))>>]]))
=============================================================================
