INIT TraceInit
NEXT TraceNext
INVARIANT Accepted
INVARIANT Stuck
