------------------------------- MODULE GenConst -------------------------------
(* C10 as a tiny state machine and its exhaustive enumeration.                     *)
(* A binding is const or not; a *write form* applied from a *context* in which the  *)
(* name denotes that binding is enabled only on a mutable binding.  The generator   *)
(* enumerates every (declaration, form, context) triple in which the form really    *)
(* denotes a write to the declared binding (IsWrite), builds the program with the   *)
(* const declaration (must be rejected at compile time) and its twin without        *)
(* `const` (must compile, run and show the written value).                          *)
EXTENDS Ast, TLC, Json

Decls == {"mod", "mod_typed", "mod_unpack", "mod_redecl", "fn", "block", "list", "obj", "objlist", "opt", "class_name", "import_mod", "export_member", "alias_member", "mod_libname"}
\* ("const_field" - `const q: int` in a class body - is modelled below but not enumerated: the property quantifies over names
\*  declared at module level / in a function / in a block / as class / as import; the compiler parses the flag of a field and
\*  ignores it.  See DESIGN section 13, observations outside the properties.)
Forms == {"assign", "typed", "add", "sub", "mul", "div", "rem", "unwrap", "modify", "index", "index_add", "field", "field_add",
          "counter", "unpack", "unpack1", "paren_field_index_add", "paren_index_field_mul", "import_mod"}
Contexts == {"same", "block", "nested_fn", "nested_fn_block", "method", "loop_body"}
\* what else bears the name of the binding where the write happens:
\*   "copy"    - the nested function / method starts with `x = x`, a local seeded from the outer binding.  From there on `modify x`
\*               still denotes the outer binding (a write: rejected on a const), every other form denotes the local (legal: the
\*               program is accepted and the const keeps its initializer);
\*   "sibling" - another method of the same class has a parameter called `x` (the name must not stay behind in the class scope)
Shadows == {"none", "copy", "sibling"}

(* the constness machine *)
WriteEnabled(isConst) == ~isConst

(* does `form` applied from `ctx` denote a write to the binding declared by `decl`? *)
IsWrite(decl, form, ctx) ==
    /\ CASE decl \in {"mod", "mod_typed", "mod_unpack", "mod_redecl", "fn", "block"} -> form \in {"assign", "typed", "add", "sub", "mul", "div", "rem", "modify", "counter", "unpack", "unpack1"}
         [] decl = "list" -> form \in {"index", "index_add"}
         [] decl = "obj" -> form \in {"assign", "field", "field_add", "modify", "paren_field_index_add"}   \* `(p.ws)[k] += v`
         [] decl = "objlist" -> form \in {"paren_index_field_mul"}                                       \* `(ps[k]).v *= v`
         [] decl = "mod_libname" -> form \in {"import_mod"}     \* `import lib` re-binds the name `lib`
         [] decl = "opt" -> form \in {"assign", "unwrap", "modify"}
         [] decl = "class_name" -> form \in {"assign"}
         [] decl = "import_mod" -> form \in {"assign"}
         [] decl = "export_member" -> form \in {"field", "field_add"}
         [] decl = "const_field" -> form \in {"field", "field_add"}           \* `const q: int` in a class body, written as `kf.q = 9` from outside
         [] decl = "alias_member" -> form \in {"field", "field_add"}          \* `m = lib` and then `m.kk = 9`: the module through another name
    \* a plain / typed assignment, a loop counter or an unpacking inside a nested function or method declares a new local:
    \* only `modify`, op-assignment and index / field assignment reach the outer binding from there
    /\ ctx \in {"nested_fn", "nested_fn_block", "method"} => form \in {"modify", "add", "sub", "mul", "div", "rem", "index", "index_add", "field", "field_add",
                                                     "paren_field_index_add", "paren_index_field_mul"}
    /\ form = "modify" => ctx \in {"nested_fn", "nested_fn_block", "method"}
    \* a loop whose counter re-uses a name declared in an *enclosing* block is left out: whether the counter then is the
    \* outer variable or a fresh one is not pinned down by the language (the implementation makes it a fresh one)
    /\ form = "counter" => ctx = "same"
    \* `[x, y] = ..` and `[x] = ..` can never re-use an existing name, const or not: on a const the statement must be rejected
    \* like any write, and there is no mutable twin (an unpack statement must be the first of its block: after an expression
    \* the parser reads `[` as an index)
    /\ form \in {"unpack", "unpack1"} => ctx \in {"block", "loop_body"}
    /\ decl \in {"fn", "block"} => ctx \in {"same", "block", "loop_body", "nested_fn", "nested_fn_block"}
    /\ decl \in {"class_name", "import_mod"} => ctx \in {"same", "block"}
    \* the members of a module - through the import binding or through another name of the module - are const from everywhere,
    \* also from inside a function literal or a method that captured the name
    /\ decl \in {"export_member", "alias_member"} => ctx \in {"same", "block", "nested_fn", "nested_fn_block", "method"}
    /\ decl = "const_field" => ctx \in {"same", "block", "nested_fn"}
    /\ decl = "mod_libname" => ctx \in {"same", "block", "loop_body"}

(* forms that, after the local copy `x = x`, denote the local and not the outer binding *)
LocalForms == {"assign", "add", "sub", "mul"}
Legal(t) == t.shadow = "copy" /\ t.form \in LocalForms
ShadowOk(t) ==
    CASE t.shadow = "none" -> IsWrite(t.decl, t.form, t.ctx)
      [] t.shadow = "copy" -> /\ t.decl \in {"mod", "mod_typed", "fn"} /\ t.ctx \in {"nested_fn", "nested_fn_block", "method"}
                              /\ (t.decl = "fn" => t.ctx # "method")
                              /\ t.form \in LocalForms \cup {"modify"}
      [] t.shadow = "sibling" -> /\ t.decl \in {"mod", "mod_typed"} /\ t.ctx = "method" /\ IsWrite(t.decl, t.form, t.ctx)
Triples == {t \in [decl : Decls, form : Forms, ctx : Contexts, shadow : Shadows] : ShadowOk(t)}

VARIABLE t
Init == t \in Triples
Next == UNCHANGED t

-----------------------------------------------------------------------------
LetC(n, ty, e, c) == [k |-> "let", n |-> n, ty |-> ty, e |-> e, mod |-> FALSE, const |-> c, export |-> FALSE]
Unpack(ns, e) == [k |-> "unpack", ns |-> ns, e |-> e]
PClass == [k |-> "class", n |-> "P", export |-> FALSE, fields |-> <<[n |-> "v", ty |-> "int"], [n |-> "ws", ty |-> "[int...]"]>>,
           ctor |-> <<[ps |-> <<>>, b |-> <<Assign(Fld(Self, "v"), "=", I(1)), Assign(Fld(Self, "ws"), "=", List(<<I(1), I(2)>>))>>]>>, methods |-> <<>>]
Paren(e) == [k |-> "paren", e |-> e]

Name == CASE t.decl \in {"mod", "mod_typed", "mod_unpack", "mod_redecl", "fn", "block"} -> "x" [] t.decl = "list" -> "xs" [] t.decl = "obj" -> "p"
          [] t.decl = "objlist" -> "ps"
          [] t.decl = "opt" -> "o" [] t.decl = "class_name" -> "P" [] t.decl \in {"import_mod", "export_member", "mod_libname"} -> "lib" [] t.decl = "alias_member" -> "m" [] t.decl = "const_field" -> "kf"

Declare(c) ==
    CASE t.decl \in {"mod", "fn", "block"} -> <<LetC("x", "", I(5), c)>>
      [] t.decl = "mod_typed" -> <<LetC("x", "int", I(5), c)>>
      \* a mutable variable declared again, as a const of the same type: from here on the name is const
      [] t.decl = "mod_redecl" -> <<Let("x", I(3)), LetC("x", "", I(5), c)>>
      [] t.decl = "mod_unpack" -> <<[k |-> "unpack", ns |-> <<"x", "zz">>, e |-> List(<<I(5), I(6)>>), const |-> c]>>   \* `const [x, zz] = [5, 6]`
      [] t.decl = "list" -> <<LetC("xs", "[int...]", List(<<I(1), I(2)>>), c)>>
      [] t.decl = "obj" -> <<LetC("p", "", New("P", <<>>), c)>>
      [] t.decl = "objlist" -> <<LetC("ps", "[P...]", List(<<New("P", <<>>)>>), c)>>
      [] t.decl = "mod_libname" -> <<LetC("lib", "", I(5), c)>>
      [] t.decl = "opt" -> <<LetC("o", "int?", I(5), c)>>
      [] t.decl = "alias_member" -> <<Let("m", V("lib"))>>
      [] t.decl = "const_field" -> <<[k |-> "class", n |-> "KF", export |-> FALSE, fields |-> <<[n |-> "q", ty |-> "int", const |-> c]>>,
                                      ctor |-> <<[ps |-> <<>>, b |-> <<Assign(Fld(Self, "q"), "=", I(1))>>]>>, methods |-> <<>>],
                                     Let("kf", New("KF", <<>>))>>
      [] OTHER -> <<>>

OpOf(f) == CASE f \in {"add", "index_add", "field_add"} -> "+" [] f = "sub" -> "-" [] f = "mul" -> "*" [] f = "div" -> "/" [] f = "rem" -> "%"
WriteStmts ==
    CASE t.form = "assign" -> <<Let(Name, CASE t.decl = "list" -> List(<<I(7)>>) [] t.decl = "obj" -> New("P", <<>>) [] OTHER -> I(7))>>
      [] t.form = "typed" -> <<LetT(Name, "int", I(7))>>
      [] t.form \in {"add", "sub", "mul", "div", "rem"} -> <<Assign(V(Name), OpOf(t.form), I(2))>>
      [] t.form = "unwrap" -> <<Let("okk", UnwrapInto(Name, I(7)))>>
      [] t.form = "modify" -> <<Modify(Name, CASE t.decl = "list" -> List(<<I(7)>>) [] t.decl = "obj" -> New("P", <<>>) [] OTHER -> I(7))>>
      [] t.form = "index" -> <<Let("k0", I(0)), Assign(Idx(V(Name), V("k0")), "=", I(9))>>
      [] t.form = "index_add" -> <<Let("k0", I(0)), Assign(Idx(V(Name), V("k0")), "+", I(8))>>
      [] t.form = "field" -> <<Assign(Fld(V(Name), CASE t.decl \in {"export_member", "alias_member"} -> "kk" [] t.decl = "const_field" -> "q" [] OTHER -> "v"), "=", I(9))>>
      [] t.form = "field_add" -> <<Assign(Fld(V(Name), CASE t.decl \in {"export_member", "alias_member"} -> "kk" [] t.decl = "const_field" -> "q" [] OTHER -> "v"), "+", I(8))>>
      \* (a statement that starts with `(` must be the first of its block: after an expression the parser reads a call)
      [] t.form = "paren_field_index_add" -> <<Let("k0", I(0)), If(Bin("==", V("k0"), I(0)), <<Assign(Idx(Paren(Fld(V("p"), "ws")), V("k0")), "+", I(8))>>)>>
      [] t.form = "paren_index_field_mul" -> <<Let("k0", I(0)), If(Bin("==", V("k0"), I(0)), <<Assign(Fld(Paren(Idx(V("ps"), V("k0"))), "v"), "*", I(6))>>)>>
      [] t.form = "import_mod" -> <<[k |-> "import", form |-> "mod", path |-> "lib", names |-> <<>>]>>
      [] t.form = "counter" -> <<From(I(0), I(3), FALSE, <<>>, Name, <<Print(S("it"))>>)>>
      [] t.form = "unpack" -> <<Unpack(<<Name, "yy">>, List(<<I(7), I(8)>>))>>
      [] t.form = "unpack1" -> <<Unpack(<<Name>>, List(<<I(7), I(8)>>))>>

Shown == CASE t.decl = "list" -> <<Print(V("xs"))>>
           [] t.decl = "obj" -> <<Print(Fld(V("p"), "v")), Print(Fld(V("p"), "ws"))>>
           [] t.decl = "objlist" -> <<Let("k9", I(0)), Let("p9", Idx(V("ps"), V("k9"))), Print(Fld(V("p9"), "v"))>>
           [] t.decl = "mod_libname" -> <<>>
           [] t.decl = "opt" -> <<Print(Bin("==", V("o"), I(7)))>>
           [] t.decl \in {"class_name", "import_mod"} -> <<>>
           [] t.decl \in {"export_member", "alias_member"} -> <<Print(Fld(V("lib"), "kk"))>>
           [] t.decl = "const_field" -> <<Print(Fld(V("kf"), "q"))>>
           [] OTHER -> <<Print(V("x"))>>

Copy == IF t.shadow = "copy" THEN <<Let(Name, V(Name))>> ELSE <<>>
Sibling == IF t.shadow = "sibling" THEN <<[n |-> "other", ps |-> <<[n |-> Name, ty |-> "int"]>>, rt |-> "int", b |-> <<Ret(V(Name))>>]>> ELSE <<>>
InContext(ws0) ==
    LET ws == IF t.ctx = "nested_fn_block" THEN Copy \o <<If(Bin("==", V("one"), I(1)), ws0)>> ELSE Copy \o ws0 IN
    CASE t.ctx = "same" -> ws
      [] t.ctx = "block" -> <<If(Bin("==", V("one"), I(1)), ws)>>
      [] t.ctx = "loop_body" -> <<From(I(0), I(1), FALSE, <<>>, "", ws)>>
      [] t.ctx \in {"nested_fn", "nested_fn_block"} -> <<Let("w", Fn("w", <<>>, "int", ws \o <<Ret(I(0))>>)), ExprS(Call(V("w"), <<>>))>>
      [] t.ctx = "method" -> <<[k |-> "class", n |-> "W", export |-> FALSE, fields |-> <<>>, ctor |-> <<>>,
                                methods |-> Sibling \o <<[n |-> "go", ps |-> <<>>, rt |-> "int", b |-> ws \o <<Ret(I(0))>>]>>],
                               Let("wo", New("W", <<>>)), ExprS(MCall(V("wo"), "go", <<>>))>>

Core(c) == Declare(c) \o InContext(WriteStmts) \o Shown
MainBody(c) ==
    <<Print(S("START")), Let("one", I(1))>>
    \o (IF t.decl \in {"obj", "objlist", "class_name"} THEN <<PClass>> ELSE <<>>)
    \o (IF t.decl \in {"import_mod", "export_member", "alias_member"} THEN <<[k |-> "import", form |-> "mod", path |-> "lib", names |-> <<>>]>> ELSE <<>>)
    \o (CASE t.decl = "fn" -> <<Let("f", Fn("f", <<>>, "int", Core(c) \o <<Ret(I(0))>>)), ExprS(Call(V("f"), <<>>))>>
          [] t.decl = "block" -> <<If(Bin("==", V("one"), I(1)), Core(c))>>
          [] OTHER -> Core(c))
    \o <<Print(S("END"))>>
LibBody(c) == <<[k |-> "let", n |-> "kk", ty |-> "int", e |-> I(1), mod |-> FALSE, const |-> FALSE, export |-> TRUE]>>
Project(c) == IF t.decl \in {"import_mod", "export_member", "alias_member", "mod_libname"}
              THEN [entry |-> 1, mods |-> <<[name |-> "main", body |-> MainBody(c)], [name |-> "lib", body |-> LibBody(c)]>>]
              ELSE [body |-> MainBody(c)]
(* class names, imported modules and their members have no mutable twin *)
HasTwin == t.decl \notin {"class_name", "import_mod", "export_member", "alias_member", "mod_libname"} /\ t.form \notin {"unpack", "unpack1"}

EmitCase == PrintT("CASE " \o ToJson([t |-> t, legal |-> Legal(t), const_enabled |-> WriteEnabled(TRUE), twin_enabled |-> WriteEnabled(FALSE),
                                       has_twin |-> HasTwin, prog |-> Project(TRUE), twin |-> Project(FALSE)]))
=============================================================================
