------------------------------- MODULE GenCtl -------------------------------
(* Generator for C01/C09: every nesting path of control constructs up to       *)
(* MaxDepth, with a terminator at the innermost position.  A state is a path;  *)
(* finished states are emitted as complete programs (AST).                     *)
EXTENDS Ast, TLC, Json

CONSTANTS MaxDepth, AllowInvalid    \* AllowInvalid: also place break / continue / return where they are not legal (C16, C03)

Kinds == {"ifT", "ifElseT", "ifElseE", "elif1", "elif2", "while", "fromTo", "fromThru",
          "fromStep", "fromAnon", "fromColl", "fn",
          \* the same constructs with compound (multi-instruction) conditions, bounds and steps
          "ifX", "whileX", "fromToX", "fromStepX",
          \* a loop whose constant range is empty: the body is compiled but never runs
          "fromEmpty",
          \* loops whose start / end / step are variables that the body reassigns: start and end are read once
          \* on entry, the step on every iteration
          "fromVars", "fromThruVar",
          \* conditions that are read out of a list element (what reaches if_stmt / while_loop is a view of the slot)
          "ifSlot", "whileSlot",
          \* a parameterless function whose very first instruction is the condition of a loop (a jump back to instruction 0)
          "fnWhile",
          \* loops whose body *ends* in an unconditional `break` / `return` behind the nested part (a retry loop): the first
          \* iteration takes the nested part, the second one reaches the tail
          "whileBrk", "fromBrk", "fnWhileRet",
          \* a condition whose right operand is guarded by the left one: `v != 1 && 6 / (v - 1) > 0` - evaluated for v = 1 it fails
          "ifGuard"}
\* "retmod": a bare `return ` outside of any function, inside a block: the module stops there (no later statement runs, the
\* program ends normally, no block frame stays behind)
Terms == {"fall", "break", "continue", "ret", "assert", "div0", "oob", "retmod"}
LoopKinds == {"while", "fromTo", "fromThru", "fromStep", "fromAnon", "fromColl", "whileX", "fromToX", "fromStepX", "fromEmpty", "fromVars", "fromThruVar", "whileSlot", "fnWhile", "whileBrk", "fromBrk", "fnWhileRet"}

VARIABLES path, term, pad, done
vars == <<path, term, pad, done>>

Name(p, d) == p \o ToString(d)

(* context at the innermost position: nearest loop variable usable in conditions, *)
(* whether break/continue and return are legal there                              *)
Ctx0 == [lv |-> "", inloop |-> FALSE, infn |-> FALSE]
Enter(ctx, k, d) ==
    CASE k = "fn" -> [lv |-> "", inloop |-> FALSE, infn |-> TRUE]
      [] k \in {"fnWhile", "fnWhileRet"} -> [lv |-> Name("hc", d), inloop |-> TRUE, infn |-> TRUE]
      [] k \in {"while", "whileX", "whileSlot", "whileBrk"} -> [ctx EXCEPT !.lv = Name("w", d), !.inloop = TRUE]
      [] k \in {"fromTo", "fromThru", "fromStep", "fromColl", "fromToX", "fromStepX", "fromVars", "fromThruVar", "fromBrk"} -> [ctx EXCEPT !.lv = Name("i", d), !.inloop = TRUE]
      [] k \in {"fromAnon", "fromEmpty"} -> [ctx EXCEPT !.inloop = TRUE]
      [] OTHER -> ctx
RECURSIVE CtxAt(_, _, _)
CtxAt(p, d, ctx) == IF d > Len(p) THEN ctx ELSE CtxAt(p, d + 1, Enter(ctx, p[d], d))

TermOk(t, ctx) == CASE t \in {"break", "continue"} -> ctx.inloop
                    [] t = "ret" -> ctx.infn
                    [] t = "retmod" -> ~ctx.infn
                    [] OTHER -> TRUE

CV(ctx) == IF ctx.lv = "" THEN V("one") ELSE V(ctx.lv)
Eq(ctx, n) == Bin("==", CV(ctx), I(n))
Ne(ctx, n) == Bin("!=", CV(ctx), I(n))

TermStmts(t) ==
    CASE t = "fall" -> <<Print(S("T"))>>
      [] t = "break" -> <<Brk>>
      [] t = "continue" -> <<Cont>>
      [] t = "ret" -> <<Ret(I(99))>>
      [] t = "retmod" -> <<RetVoid>>
      [] t = "assert" -> <<Assert(Bin("==", V("one"), I(2)))>>
      [] t = "div0" -> <<Let("q", I(0)), Print(Bin("/", I(1), V("q")))>>
      [] t = "oob" -> <<LetT("xs", "[int...]", List(<<I(1), I(2)>>)), Let("k5", I(5)), Print(Idx(V("xs"), V("k5")))>>

RECURSIVE Build(_, _, _, _, _)
Body(p, d, t, ctx, padded) ==
    (IF padded THEN <<Print(S(Name("a", d)))>> ELSE <<>>)
    \o Build(p, d + 1, t, ctx, padded)
    \o (IF padded THEN <<Print(S(Name("z", d)))>> ELSE <<>>)

(* statements for levels d.. of path p in context ctx (the context *outside* level d) *)
Build(p, d, t, ctx, padded) ==
    IF d > Len(p) THEN TermStmts(t)
    ELSE LET k == p[d]
             c2 == Enter(ctx, k, d)
             body == Body(p, d, t, c2, padded)
             after == <<Print(S(Name("p", d)))>> IN
    CASE k = "ifT" -> <<If(Eq(ctx, 1), body)>> \o after
      [] k = "ifElseT" -> <<IfElse(Eq(ctx, 1), body, <<Print(S(Name("e", d)))>>)>> \o after
      [] k = "ifElseE" -> <<IfElse(Ne(ctx, 1), <<Print(S(Name("t", d)))>>, body)>> \o after
      [] k = "elif1" -> <<IfElif(Eq(ctx, 0), <<Print(S(Name("x", d)))>>,
                                 IfElse(Eq(ctx, 1), body, <<Print(S(Name("y", d)))>>))>> \o after
      [] k = "elif2" -> <<IfElif(Eq(ctx, 0), <<Print(S(Name("x", d)))>>,
                                 IfElse(Eq(ctx, 2), <<Print(S(Name("y", d)))>>, body))>> \o after
      [] k = "while" -> <<Let(Name("w", d), I(-1)),
                          While(Bin("<", V(Name("w", d)), I(2)),
                                <<Let(Name("w", d), Bin("+", V(Name("w", d)), I(1)))>> \o body)>> \o after
      [] k = "fromTo" -> <<From(I(0), I(3), FALSE, <<>>, Name("i", d), body)>> \o after
      [] k = "fromThru" -> <<From(I(0), I(2), TRUE, <<>>, Name("i", d), body)>> \o after
      [] k = "fromStep" -> <<From(I(-1), I(4), FALSE, <<I(2)>>, Name("i", d), body)>> \o after
      [] k = "fromAnon" -> <<From(I(0), I(2), FALSE, <<>>, "", body)>> \o after
      [] k = "fromEmpty" -> <<From(I(5), I(5), FALSE, <<>>, "", body)>> \o after
      [] k = "fnWhile" -> <<Let(Name("hc", d), I(-1)),
                            Let(Name("f", d), Fn(Name("f", d), <<>>, "int",
                                <<While(Bin("<", V(Name("hc", d)), I(2)), <<Modify(Name("hc", d), Bin("+", V(Name("hc", d)), I(1)))>> \o body)>> \o <<Ret(I(10 + d))>>)),
                            Print(Call(V(Name("f", d)), <<>>))>> \o after
      [] k = "whileBrk" -> <<Let(Name("w", d), I(0)),
                             While(Bin("<", V(Name("w", d)), I(5)),
                                   <<Let(Name("w", d), Bin("+", V(Name("w", d)), I(1)))>> \o body \o <<Print(S(Name("tail", d))), Brk>>)>> \o after
      [] k = "fromBrk" -> <<From(I(1), I(6), FALSE, <<>>, Name("i", d), body \o <<Print(S(Name("tail", d))), Brk>>)>> \o after
      [] k = "fnWhileRet" -> <<Let(Name("hc", d), I(0)),
                               Let(Name("f", d), Fn(Name("f", d), <<>>, "int",
                                   <<While(Bin("<", V(Name("hc", d)), I(5)),
                                           <<Modify(Name("hc", d), Bin("+", V(Name("hc", d)), I(1)))>> \o body \o <<Print(S(Name("tail", d))), Ret(I(70 + d))>>)>>
                                   \o <<Ret(I(10 + d))>>)),
                               Print(Call(V(Name("f", d)), <<>>))>> \o after
      [] k = "ifGuard" -> <<If(Bin("&&", Ne(ctx, 1), Bin(">", Bin("/", I(6), Bin("-", CV(ctx), I(1))), I(0))), body)>> \o after
      [] k = "ifSlot" -> <<LetT(Name("fl", d), "[bool...]", List(<<Eq(ctx, 1), B(FALSE)>>)), Let(Name("k", d), I(0)),
                           If(Idx(V(Name("fl", d)), V(Name("k", d))), body)>> \o after
      [] k = "whileSlot" -> <<LetT(Name("fl", d), "[bool...]", List(<<B(TRUE), B(TRUE), B(TRUE), B(FALSE)>>)), Let(Name("w", d), I(-1)),
                              While(Idx(V(Name("fl", d)), Bin("+", V(Name("w", d)), I(1))),
                                    <<Let(Name("w", d), Bin("+", V(Name("w", d)), I(1)))>> \o body)>> \o after
      [] k = "fromVars" -> <<Let(Name("lo", d), I(0)), Let(Name("hi", d), I(4)), Let(Name("st", d), I(1)),
                             From(V(Name("lo", d)), V(Name("hi", d)), FALSE, <<V(Name("st", d))>>, Name("i", d),
                                  <<Let(Name("lo", d), I(2)), Let(Name("hi", d), I(2)), Let(Name("st", d), I(2))>> \o body),
                             Print(Bin("+", V(Name("lo", d)), Bin("+", V(Name("hi", d)), V(Name("st", d)))))>> \o after
      [] k = "fromThruVar" -> <<Let(Name("hi", d), I(2)),
                                From(I(0), V(Name("hi", d)), TRUE, <<>>, Name("i", d), <<Let(Name("hi", d), Bin("-", V(Name("hi", d)), I(2)))>> \o body)>> \o after
      [] k = "fromColl" -> <<Let(Name("i", d), I(7)),
                             From(I(0), I(3), FALSE, <<>>, Name("i", d), body),
                             Print(V(Name("i", d)))>> \o after
      [] k = "ifX" -> <<If(Bin("&&", Eq(ctx, 1), Bin("||", Bin("==", V("one"), I(0)), Bin("==", V("one"), I(1)))), body)>> \o after
      [] k = "whileX" -> <<Let(Name("w", d), I(-1)),
                           While(Bin("&&", Bin("<", Bin("+", V(Name("w", d)), I(0)), Bin("+", V("one"), I(1))), Bin("==", V("one"), I(1))),
                                 <<Let(Name("w", d), Bin("+", V(Name("w", d)), I(1)))>> \o body)>> \o after
      [] k = "fromToX" -> <<From(Bin("-", V("one"), I(1)), Bin("+", V("one"), Bin("*", V("one"), I(2))), FALSE, <<>>, Name("i", d), body)>> \o after
      [] k = "fromStepX" -> <<From(I(-1), I(4), FALSE, <<Bin("+", V("one"), Bin("*", V("one"), V("one")))>>, Name("i", d), body)>> \o after
      [] k = "fn" -> <<Let(Name("f", d), Fn(Name("f", d), <<>>, "int", body \o <<Ret(I(10 + d))>>)),
                       Print(Call(V(Name("f", d)), <<>>))>> \o after

Prog(p, t, padded) == [body |-> <<Let("one", I(1)), Print(S("S"))>> \o Build(p, 1, t, Ctx0, padded) \o <<Print(S("E"))>>]

Init == path = <<>> /\ term = "" /\ pad \in BOOLEAN /\ done = FALSE
Extend(k) == /\ ~done /\ Len(path) < MaxDepth
             /\ path' = Append(path, k) /\ UNCHANGED <<term, pad, done>>
Finish(t) == /\ ~done /\ Len(path) >= 1 /\ (AllowInvalid \/ TermOk(t, CtxAt(path, 1, Ctx0)))
             \* (a bare `return ` takes the next line as its operand: it has to be the last statement of its block)
             /\ (t = "retmod" => ~pad /\ path[Len(path)] \notin {"whileBrk", "fromBrk", "fnWhileRet"})
             /\ term' = t /\ done' = TRUE /\ UNCHANGED <<path, pad>>
Next == (\E k \in Kinds : Extend(k)) \/ (\E t \in Terms : Finish(t))

EmitCase == done => PrintT("CASE " \o ToJson([path |-> path, term |-> term, pad |-> pad, valid |-> TermOk(term, CtxAt(path, 1, Ctx0)),
                                               prog |-> Prog(path, term, pad)]))
=============================================================================
