--------------------------- MODULE CheckFloatText ---------------------------
(* Judge of MSNum!FloatText against texts obtained elsewhere (an independent reference and the real binary): *)
(* cases [id, neg, m (decimal text of the mantissa), e, text]                                                   *)
EXTENDS MSNum, Json, IOUtils
Cases == ndJsonDeserialize(IOEnv.CASES)
VARIABLE i
Init == i \in 1..Len(Cases)
Next == UNCHANGED i
Judge == LET c == Cases[i]
             t == FloatText([cls |-> "fin", neg |-> c.neg, m |-> NatOfDec(c.m), e |-> c.e]) IN
         t = c.text \/ PrintT("DISAGREE " \o ToJson([id |-> c.id, spec |-> t, other |-> c.text]))
=============================================================================
