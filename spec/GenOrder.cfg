CONSTANT MaxDepth = 2
CONSTANT Roots <- RootProds
INIT Init
NEXT Next
INVARIANT EmitCase
