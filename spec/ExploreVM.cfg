INIT Init
NEXT Next
INVARIANT Report
INVARIANT RetRecord
INVARIANT Finished
