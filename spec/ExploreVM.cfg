INIT Init
NEXT Next
INVARIANT Report
INVARIANT Finished
