------------------------------ MODULE MSModules ------------------------------
(* The run-time module loader (bytecode/src/interpreter.rs process_jump_request, *)
(* Module arm + add_file + module_cache) as a state machine over cache keys.     *)
(* A key is the string the compiler put into `module_entry`: "<path>.mmm#__module__". *)
EXTENDS Integers, Sequences, FiniteSets, TLC

VARIABLES cache,    \* keys whose exports are registered (module_cache)
          inited,   \* keys whose top-level code has been entered, in order (a sequence)
          running,  \* stack of keys whose top-level code is executing
          pending   \* key announced by a cache miss and not yet entered ("" if none)
mvars == <<cache, inited, running, pending>>

(* lexical normalisation of a path: drop "." segments *)
RECURSIVE DropDots(_)
DropDots(p) ==
    IF Len(p) >= 2 /\ SubSeq(p, 1, 2) = "./" THEN DropDots(SubSeq(p, 3, Len(p)))
    ELSE LET hits == {k \in 1..(Len(p) - 2) : SubSeq(p, k, k + 2) = "/./"} IN
         IF hits = {} THEN p
         ELSE LET k == CHOOSE k \in hits : TRUE IN DropDots(SubSeq(p, 1, k) \o SubSeq(p, k + 3, Len(p)))
Norm(key) == DropDots(key)
Range(s) == {s[k] : k \in 1..Len(s)}

MInit(entry) == /\ cache = {entry} /\ inited = <<>> /\ running = <<>> /\ pending = entry

EntryMiss(key) ==     \* `module_entry` found nothing in the cache: the module will be loaded and run now
    /\ pending = "" /\ key \notin cache
    /\ pending' = key /\ UNCHANGED <<cache, inited, running>>
EntryHit(key) ==      \* `module_entry` answered from the cache: no code runs
    /\ pending = "" /\ key \in cache
    /\ UNCHANGED mvars
EnterModule(key) ==   \* Function::run entered <key>
    /\ pending = key
    /\ inited' = Append(inited, key) /\ running' = Append(running, key) /\ pending' = ""
    /\ UNCHANGED cache
DoneModule(key) ==    \* the module's top-level code returned (ret_mod) and the cache entry is written
    /\ pending = "" /\ running # <<>> /\ running[Len(running)] = key
    /\ running' = SubSeq(running, 1, Len(running) - 1)
    /\ cache' = cache \cup {key}
    /\ UNCHANGED <<inited, pending>>

(* C11 on the loader *)
InitAtMostOnce == \A a, b \in 1..Len(inited) : inited[a] = inited[b] => a = b
OneInstance == \A a, b \in 1..Len(inited) : Norm(inited[a]) = Norm(inited[b]) => a = b
InitBeforeImporterContinues == pending # "" => pending \notin Range(inited)   \* a miss is followed by exactly one run
=============================================================================
