---------------------------- MODULE MSFfiMachine ----------------------------
(* The call convention of MSFfi as a step-by-step state machine (one action per   *)
(* instruction kind), explored by TLC for every small case; its terminal states    *)
(* must equal MSFfi!Expected, and a failed call must leave no action enabled.      *)
EXTENDS MSFfi, FiniteSets
VARIABLES c, stack, out, status, msg, pc
mvars == <<c, stack, out, status, msg, pc>>
SmallCases == {[args |-> a, call |-> f, call2 |-> f2, args2 |-> a2] :
                  a \in {<<>>} \cup {<<x>> : x \in 1..6} \cup {<<x, y>> : x \in 1..3, y \in 1..3}, f \in Calls,
                  f2 \in Calls \cup {""}, a2 \in {<<>>, <<6>>}}
Init == c \in SmallCases /\ stack = <<>> /\ out = <<>> /\ status = "run" /\ msg = "" /\ pc = 1
Ins == Prog(c)[pc]
Fetch(op) == pc <= Len(Prog(c)) /\ status = "run" /\ Ins.op = op
Push == Fetch("push") /\ stack' = Append(stack, Ins.v) /\ pc' = pc + 1 /\ UNCHANGED <<c, out, status, msg>>
PrintAll == Fetch("print") /\ out' = Append(out, ShownAll(stack)) /\ pc' = pc + 1 /\ UNCHANGED <<c, stack, status, msg>>
Void == Fetch("void") /\ stack' = <<>> /\ pc' = pc + 1 /\ UNCHANGED <<c, out, status, msg>>
CallValue == Fetch("call") /\ Ins.f \in {"probe_echo", "probe_last"}
             /\ stack' = (IF Ins.f = "probe_echo" THEN <<StrVal(DebugSlice(stack))>>
                          ELSE IF stack = <<>> THEN <<>> ELSE <<stack[Len(stack)]>>)
             /\ pc' = pc + 1 /\ UNCHANGED <<c, out, status, msg>>
CallNoValue == Fetch("call") /\ Ins.f = "probe_none"
               /\ out' = Append(out, "probe_none " \o DebugSlice(stack)) /\ stack' = <<>>
               /\ pc' = pc + 1 /\ UNCHANGED <<c, status, msg>>
CallFails == Fetch("call") /\ Ins.f \in {"probe_fail", "missing_symbol", "missing_library"}
             /\ status' = "failed"
             /\ msg' = (CASE Ins.f = "probe_fail" -> "FFI: boom:" \o ToString(Len(stack))
                          [] Ins.f = "missing_symbol" -> "Could not find symbol"
                          [] Ins.f = "missing_library" -> "Could not open FFI Library")
             /\ UNCHANGED <<c, stack, out, pc>>
Next == Push \/ PrintAll \/ Void \/ CallValue \/ CallNoValue \/ CallFails
Terminal == pc > Len(Prog(c)) \/ status # "run"
MatchesExpected == Terminal => LET e == Expected(c) IN e.out = out /\ e.status = status /\ e.msg = msg
NoInstructionAfterFailure == status = "failed" => ~ENABLED Next
ArgumentsUnchanged == (pc <= Len(Prog(c)) /\ status = "run" /\ Ins.op = "call") =>
                        (stack = [k \in 1..Len(c.args) |-> Vals[c.args[k]]] \/ stack = [k \in 1..Len(c.args2) |-> Vals[c.args2[k]]])
=============================================================================
