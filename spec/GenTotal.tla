------------------------------- MODULE GenTotal -------------------------------
(* Generator for C16 (the compiler is total): two small exhaustive products of    *)
(* inputs on which compile-time work happens - and so can fail - in every place    *)
(* where the compiler may be tempted to `unwrap()`:                                *)
(*  (a) boundary / ill-formed expressions x every syntactic context in which an    *)
(*      expression is compiled (statement, declaration, call / method / constructor *)
(*      argument, list element, index, condition, bound, return value, operand);    *)
(*  (b) import statements: path shapes x import forms x placements.                 *)
(* Most of these programs are ill-formed on purpose; the property only asks for    *)
(* "success or diagnostics, never a crash".  A case is the source text.            *)
EXTENDS Integers, Sequences, TLC, Json

Exprs == {
  "xs[-1]", "xs[0 - 1]", "xs[-B5]", "xs[1.5]", "xs[1f]", "xs[99]", "xs[2147483648]", "xs[0b1]", "xs[true]", "xs[nil]", "xs[\"a\"]", "xs[k][0]",
  "ys[2]", "ys[-1]", "ys[1 - 2]", "ys[9999999999]", "\"abc\"[-1]", "\"abc\"[7]", "\"\"[0]", "mm[1]", "mm[\"zz\"]", "mm[nil]",
  "1 / 0", "1 % 0", "B1 / B0", "1.0 / 0", "0b1 / 0b0", "5 << 99", "5 << -1", "5 >> B200", "0b1 << 9", "2147483647 + 1", "-2147483647 - 2",
  "B170141183460469231731687303715884105727 + B1", "2147483648", "-2147483648", "99999999999999999999999999999999999999999", "0b111111111", "1e999",
  "typeof k", "typeof -5", "typeof typeof k", "get nil", "get 5", "nil or 1", "(k) or 1", "k ?= 5", "5 ?= k", "nil ?= nil", "-true", "!5", "-\"s\"", "--5", "- -5",
  "k()", "5()", "f(1)(2)", "f()", "f(1, 2)", "f(f)", "o.zz", "o.v.w", "o.val()", "o.val(1)", "Box(1)", "Box", "self", "Self", "nosuch", "print",
  "[1, \"a\"]", "[]", "[[]]", "[1, [2]]", "map[int, str]", "map[int, str] {1: 2}", "map[str, int] {\"a\": 1, \"a\": 2}", "fn() { return 1 }", "fn() -> int { }",
  "fn(a: int, a: int) { }", "fn() -> int { return 1 }", "ap(fn() -> int { return 1 })", "ap2(fn() -> int { return k }, 2)",
  "ap(fn() -> int { return ap(fn() -> int { return 2 }) })", "o.add(ap(fn() -> int { return 1 }))", "ap(f)", "ap(fn() -> str { return 1 })",
  \* strings with characters of more than one byte (~E~ = e-acute, ~J~ = a CJK character, ~M~ = an emoji; substituted by the harness,
  \* see DESIGN: TLC does not keep non-ASCII characters in states reliably): character positions are not byte positions
  "\"h~E~llo\"[1]", "\"h~E~llo\"[2]", "\"h~E~llo\"[5]", "\"~E~\"[0]", "\"~E~\"[1]", "\"~J~~J~\"[1]", "\"~J~~J~\"[2]", "\"~M~\"[0]", "\"~M~\"[1]", "\"a~M~b\"[2]",
  "\"~E~\".len()", "\"a~E~\" * 2", "\"~E~\" + \"a\"", "\"~E~\" == \"e\"", "\"h~E~llo\".substring(1, 2)", "\"h~E~llo\".index_of(\"l\")", "\"~J~x\"[k]",
  \* escape sequences the language does not have, also in front of a character of more than one byte (the escape is two
  \* characters, not two bytes), at the start and at the end of a literal
  "\"\\q\"", "\"a\\q\"", "\"caf\\~E~\"", "\"5\\~J~\"", "\"\\~M~\"", "\"\\~E~\\~E~\"", "\"\\u00e9\"", "\"\\x41\"", "\"\\0\"", "\"~E~\\n~J~\\t~M~\"", "\"\\\\~E~\"", "\"\\'\"",
  \* `Self` outside of a class
  "(get sx).foo", "(sx).foo", "sx == nil", "(get sx).val()", "get sx",
  "1 is nil", "xs is ys", "f == f", "xs == 1", "\"a\" * -1", "\"a\" * 2147483647", "\"a\" + nil", "1 + \"a\" + 2", "k += 1", "k = 5" }

(* scaling shapes: long flat chains and deep nestings (the front end must stay polynomial and must not overflow its stack) *)
RECURSIVE Rep(_, _)
Rep(str, n) == IF n = 0 THEN "" ELSE str \o Rep(str, n - 1)
Scaling == {
  "bt" \o Rep(" && bt", 30), "bt" \o Rep(" || bf", 30), "bt" \o Rep(" && bt || bf", 12), "bt" \o Rep(" ^ bf", 24),
  "1" \o Rep(" + 1", 60), "k" \o Rep(" * 1", 40), "\"a\"" \o Rep(" + \"b\"", 40), "1" \o Rep(" < 2 && 1", 14) \o " < 2",
  Rep("(", 40) \o "k" \o Rep(")", 40), Rep("f(", 30) \o "1" \o Rep(")", 30), Rep("[", 20) \o "1" \o Rep("]", 20), Rep("-", 1) \o Rep("(-", 20) \o "k" \o Rep(")", 20),
  Rep("!", 1) \o Rep("(!", 20) \o "bt" \o Rep(")", 20), "xs" \o Rep("[0]", 1) \o Rep(" + xs[0]", 30), "(io) or " \o Rep("(io) or ", 20) \o "1",
  "dm", "-dm", "dm + 1", "!dm", "dm * dm", "f(-dm)", "f(dm)", "dm == 5", "xs[dm]" }

(* constant arithmetic at the boundaries of the integer kinds: every operand pair x operator is folded by the compiler, and   *)
(* the cases without a result (overflow, zero divisor, MIN / -1, MIN % -1, shift amounts) must come back as diagnostics     *)
FoldOperands == {"(-2147483647 - 1)", "2147483647", "-1", "0", "1", "2", "31", "32", "(-B170141183460469231731687303715884105727 - B1)",
                 "B170141183460469231731687303715884105727", "B-1", "B0", "127", "128", "0b11111111", "0b0", "1.5", "0.0"}
FoldOps == {"+", "-", "*", "/", "%", "<<", ">>"}
FoldExprs == {a \o " " \o op \o " " \o b : a \in FoldOperands, op \in FoldOps, b \in FoldOperands}
FoldContexts == {"print", "typed_decl", "index"}

Contexts == {"stmt", "print", "decl", "typed_decl", "arg", "arg2", "method_arg", "ctor_arg", "push_arg", "list_elem", "index", "cond", "while_cond",
             "bound", "step", "ret", "operand_l", "operand_r", "assert", "reassign", "field_assign", "index_assign", "map_value", "in_fn", "in_method", "or_fallback",
             "in_ctor", "in_method_closure", "method_self_arg", "rec_arg", "in_method_ret"}

Prologue == <<"class Box {", "	v: int", "	constructor(self) {", "		self.v = 1", "	}", "	fn val(self) -> int {", "		return self.v", "	}",
              "	fn add(self, n: int) -> int {", "		return self.v + n", "	}", "}", "class Pt {", "	q: int", "	constructor(self, q: int) {", "		self.q = q", "	}", "}",
              "xs: [int...] = [1, 2]", "const ys = [1, 2]", "mm = map[str, int] {\"a\": 1}", "k = 0", "o = Box()", "io: int? = nil",
              "f = fn(a: int) -> int { return a }", "g = fn(a: int, b: int) -> int { return a + b }", "bt = true", "bf = false",
              "type Meters int", "dm: Meters = 5", "sx: Self? = nil", "ap = fn(h: fn() -> int) -> int { return h() }",
              "ap2 = fn(h: fn() -> int, n: int) -> int { return h() + n }">>

In(ctx, e) ==
    CASE ctx = "stmt" -> <<e>>
      [] ctx = "print" -> <<"print " \o e>>
      [] ctx = "decl" -> <<"d = " \o e>>
      [] ctx = "typed_decl" -> <<"d: int = " \o e>>
      [] ctx = "arg" -> <<"print f(" \o e \o ")">>
      [] ctx = "arg2" -> <<"print g(1, " \o e \o ")">>
      [] ctx = "method_arg" -> <<"print o.add(" \o e \o ")">>
      [] ctx = "ctor_arg" -> <<"p = Pt(" \o e \o ")">>
      [] ctx = "push_arg" -> <<"xs.push(" \o e \o ")">>
      [] ctx = "list_elem" -> <<"l: [int...] = [1, " \o e \o "]">>
      [] ctx = "index" -> <<"print xs[" \o e \o "]">>
      [] ctx = "cond" -> <<"if " \o e \o " {", "	print 1", "}">>
      [] ctx = "while_cond" -> <<"while " \o e \o " {", "	break", "}">>
      [] ctx = "bound" -> <<"from 0 to " \o e \o " {", "	print 1", "}">>
      [] ctx = "step" -> <<"from 0 to 3 step " \o e \o " {", "	print 1", "}">>
      [] ctx = "ret" -> <<"r = fn() -> int {", "	return " \o e, "}", "print r()">>
      [] ctx = "operand_l" -> <<"print " \o e \o " + 1">>
      [] ctx = "operand_r" -> <<"print 1 + " \o e>>
      [] ctx = "assert" -> <<"assert " \o e>>
      [] ctx = "reassign" -> <<"k = " \o e>>
      [] ctx = "field_assign" -> <<"o.v = " \o e>>
      [] ctx = "index_assign" -> <<"xs[k] = " \o e>>
      [] ctx = "map_value" -> <<"mm[\"b\"] = " \o e>>
      [] ctx = "in_fn" -> <<"w = fn() {", "	print " \o e, "}", "w()">>
      [] ctx = "in_method" -> <<"class W {", "	fn go(self) {", "		print " \o e, "	}", "}", "wi = W()", "wi.go()">>
      [] ctx = "in_ctor" -> <<"class W {", "	v: int", "	constructor(self) {", "		self.v = " \o e, "	}", "}", "wi = W()">>
      [] ctx = "in_method_closure" -> <<"class W {", "	fn go(self) {", "		c = fn() {", "			print " \o e, "		}", "		c()", "	}", "}", "wi = W()", "wi.go()">>
      [] ctx = "method_self_arg" -> <<"class W {", "	fn id(self, n: int) -> int {", "		return n", "	}", "	fn go(self) {", "		print self.id(" \o e \o ")", "	}", "}", "wi = W()", "wi.go()">>
      [] ctx = "rec_arg" -> <<"rc = fn(h: fn() -> int, n: int) -> int {", "	if n <= 0 {", "		return h()", "	}", "	return self(" \o e \o ", n - 1)", "}", "print rc(fn() -> int { return 4 }, 2)">>
      [] ctx = "in_method_ret" -> <<"class W {", "	fn go(self) -> int {", "		return " \o e, "	}", "}", "wi = W()", "print wi.go()">>
      [] ctx = "or_fallback" -> <<"print (io) or " \o e>>

Paths == {"..", "./..", "../lib", ".", "./.", "lib/..", "a/../b", "/abs", "nosuch", "main", "./main", "lib", "./lib", "lib.ms", "lib/", "", "..ms", "~", "a b"}
Forms == {"mod", "name", "type", "names2"}
Places == {"top", "if", "while", "fn", "method", "else", "after_use"}

ImportLine(form, p) ==
    CASE form = "mod" -> "import " \o p
      [] form = "name" -> "import val from " \o p
      [] form = "type" -> "import type T from " \o p
      [] form = "names2" -> "import val, type T from " \o p
Placed(pl, line) ==
    CASE pl = "top" -> <<line>>
      [] pl = "if" -> <<"ready = true", "if ready {", "	" \o line, "}">>
      [] pl = "while" -> <<"while true {", "	" \o line, "	break", "}">>
      [] pl = "fn" -> <<"w = fn() {", "	" \o line, "}", "w()">>
      [] pl = "method" -> <<"class W {", "	fn go(self) {", "		" \o line, "	}", "}", "wi = W()", "wi.go()">>
      [] pl = "else" -> <<"if false {", "	print 1", "} else {", "	" \o line, "}">>
      [] pl = "after_use" -> <<"print 1", line, "print 2">>

VARIABLE c
Init == c \in [kind : {"expr"}, e : Exprs \cup Scaling, ctx : Contexts] \cup [kind : {"expr"}, e : FoldExprs, ctx : FoldContexts] \cup [kind : {"import"}, form : Forms, path : Paths, place : Places]
Next == UNCHANGED c

Lines == IF c.kind = "expr" THEN Prologue \o In(c.ctx, c.e) ELSE Placed(c.place, ImportLine(c.form, c.path))
Id == IF c.kind = "expr" THEN c.ctx \o ": " \o c.e ELSE c.place \o ": " \o ImportLine(c.form, c.path)
EmitCase == PrintT("CASE " \o ToJson([id |-> Id, kind |-> c.kind, lines |-> Lines, lib |-> (c.kind = "import"), prologue |-> Prologue]))
=============================================================================
