INIT Init
NEXT Next
INVARIANT MatchesExpected
INVARIANT NoInstructionAfterFailure
INVARIANT ArgumentsUnchanged
