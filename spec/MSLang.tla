------------------------------- MODULE MSLang -------------------------------
(* L1: source-level reference semantics of MScript, executable by TLC.          *)
(*                                                                               *)
(* A program is a JSON AST (see DESIGN.md appendix A, nodes carry a kind `k`).   *)
(* Evaluation is big-step with an explicit store:                                *)
(*   cells  : Seq(value)        every variable is a cell; closures and objects   *)
(*                              hold cell *ids*, i.e. capture by reference       *)
(*   lists  : Seq(Seq(value))   list heap, lists are references                  *)
(*   maps   : Seq(Seq([k, v]))  map heap (insertion order kept only for the model) *)
(*   objs   : Seq([cls, fields : name -> cell id])                               *)
(*   out    : Seq(STRING)       lines printed so far                             *)
(*   status : "ok" | "break" | "continue" | "return" | failure class             *)
(*   stack  : Seq(label)        source-level activations, innermost last         *)
(* Failure classes: "assert", "nil", "index", "key", "zerodiv", "overflow",      *)
(* "conversion", "range", "type" (the latter = the model itself cannot apply an   *)
(* operation: the program is outside the well-typed fragment) and "fuel".         *)
(* After a failure `out` is frozen: no evaluation step runs any more.             *)
EXTENDS Integers, Sequences, FiniteSets, TLC

-----------------------------------------------------------------------------
(* values *)
VInt(n)   == [t |-> "int", v |-> n]
VBool(b)  == [t |-> "bool", b |-> b]
VStr(s)   == [t |-> "str", s |-> s]
VNil      == [t |-> "nil"]
VList(id) == [t |-> "list", id |-> id]
VMap(id)  == [t |-> "map", id |-> id]
VObj(id)  == [t |-> "obj", id |-> id]
VFn(code, cap, this, home) == [t |-> "fn", code |-> code, cap |-> cap, this |-> this, home |-> home]
VBound(o, m) == [t |-> "bound", o |-> o, m |-> m]   \* built-in method bound to a receiver
VModule(n) == [t |-> "module", name |-> n]
VClass(decl, cap, home) == [t |-> "class", decl |-> decl, cap |-> cap, home |-> home]

MaxI == 2147483647
MinI == -2147483647 - 1

Abs(a) == IF a < 0 THEN 0 - a ELSE a          \* not for MinI
Fail(c) == [fail |-> c]
Ok(n) == [fail |-> "", v |-> n]

(* 32-bit checked arithmetic without ever leaving TLC's own 32-bit range *)
IAdd(a, b) == IF (b > 0 /\ a > MaxI - b) \/ (b < 0 /\ a < MinI - b) THEN Fail("overflow") ELSE Ok(a + b)
ISub(a, b) == IF (b < 0 /\ a > MaxI + b) \/ (b > 0 /\ a < MinI + b) THEN Fail("overflow") ELSE Ok(a - b)
INeg(a) == IF a = MinI THEN Fail("overflow") ELSE Ok(0 - a)
IMul(a, b) ==
    IF a = 0 \/ b = 0 THEN Ok(0)
    ELSE IF a = MinI THEN (IF b = 1 THEN Ok(a) ELSE Fail("overflow"))
    ELSE IF b = MinI THEN (IF a = 1 THEN Ok(b) ELSE Fail("overflow"))
    ELSE LET x == Abs(a) y == Abs(b) neg == (a < 0) # (b < 0) IN
         IF x <= MaxI \div y THEN Ok(IF neg THEN 0 - (x * y) ELSE x * y)
         ELSE IF neg /\ x = (MaxI \div y) + 1 /\ (MaxI % y) = y - 1 THEN Ok(MinI)
         ELSE Fail("overflow")
(* 2^31 \div y and 2^31 % y for 1 <= y <= MaxI *)
P31Div(y) == (MaxI \div y) + (IF (MaxI % y) = y - 1 THEN 1 ELSE 0)
P31Mod(y) == ((MaxI % y) + 1) % y
IDiv(a, b) ==
    IF b = 0 THEN Fail("zerodiv")
    ELSE IF a = MinI /\ b = -1 THEN Fail("overflow")
    ELSE IF b = MinI THEN Ok(IF a = MinI THEN 1 ELSE 0)
    ELSE LET y == Abs(b) neg == (a < 0) # (b < 0)
             q == IF a = MinI THEN P31Div(y) ELSE Abs(a) \div y IN
         Ok(IF neg THEN 0 - q ELSE q)
IRem(a, b) ==
    IF b = 0 THEN Fail("zerodiv")
    ELSE IF b = MinI THEN Ok(IF a = MinI THEN 0 ELSE a)
    ELSE LET y == Abs(b)
             r == IF a = MinI THEN P31Mod(y) ELSE Abs(a) % y IN
         Ok(IF a < 0 THEN 0 - r ELSE r)

-----------------------------------------------------------------------------
(* environments: own = block frames of the running activation (innermost last), *)
(* cap = the flat name -> cell map the function value captured when it was made *)
NoFrame == [n \in {} |-> 0]
NoFrame2 == [n \in {} |-> [m \in {} |-> 0]]
Bind(f, n, c) == [m \in DOMAIN f \cup {n} |-> IF m = n THEN c ELSE f[m]]
Bind2(f, n) == [m \in DOMAIN f \cup {n} |-> IF m = n THEN [x \in {} |-> 0] ELSE f[m]]
Env0 == [own |-> <<NoFrame>>, cap |-> NoFrame]

RECURSIVE FindOwn(_, _, _)
FindOwn(own, i, n) == IF i = 0 THEN 0
                      ELSE IF n \in DOMAIN own[i] THEN own[i][n] ELSE FindOwn(own, i - 1, n)
LookupOwn(env, n) == FindOwn(env.own, Len(env.own), n)
Lookup(env, n) == LET c == LookupOwn(env, n) IN
                  IF c # 0 THEN c ELSE IF n \in DOMAIN env.cap THEN env.cap[n] ELSE 0
PushBlock(env) == [env EXCEPT !.own = Append(@, NoFrame)]
BindTop(env, n, c) == [env EXCEPT !.own[Len(env.own)] = Bind(@, n, c)]
(* what a function value created here can see: every visible name, innermost wins *)
RECURSIVE Flatten(_, _, _)
Flatten(own, i, acc) == IF i > Len(own) THEN acc
                        ELSE Flatten(own, i + 1, [m \in DOMAIN acc \cup DOMAIN own[i] |->
                                                    IF m \in DOMAIN own[i] THEN own[i][m] ELSE acc[m]])
Visible(env) == Flatten(env.own, 1, env.cap)

-----------------------------------------------------------------------------
(* free variables of a function literal: what it captures.  A function that *)
(* captures nothing is not a closure (C07).                                   *)
RECURSIVE FVE(_), FVSeq(_, _), FVB(_, _, _), FVS(_, _), ClassFV(_)
FVSeq(es, i) == IF i > Len(es) THEN {} ELSE FVE(es[i]) \cup FVSeq(es, i + 1)
FVFn(f) == FVB(f.b, 1, {f.ps[k].n : k \in 1..Len(f.ps)} \cup {"self"})
FVE(e) ==
    CASE e.k = "var" -> {e.n}
      [] e.k \in {"neg", "not", "get", "typeof"} -> FVE(e.e)
      [] e.k = "bin" -> FVE(e.l) \cup FVE(e.r)
      [] e.k = "list" -> FVSeq(e.es, 1)
      [] e.k = "paren" -> FVE(e.e)
      [] e.k = "map" -> FVSeq([j \in 1..Len(e.kvs) |-> e.kvs[j].key], 1) \cup FVSeq([j \in 1..Len(e.kvs) |-> e.kvs[j].val], 1)
      [] e.k = "idx" -> FVE(e.o) \cup FVE(e.i)
      [] e.k = "call" -> FVE(e.f) \cup FVSeq(e.args, 1)
      [] e.k = "mcall" -> FVE(e.o) \cup FVSeq(e.args, 1)
      [] e.k = "fld" -> FVE(e.o)
      [] e.k = "new" -> {e.cls} \cup FVSeq(e.args, 1)
      [] e.k = "or" -> FVE(e.e) \cup FVE(e.d)
      [] e.k = "unwrapinto" -> FVE(e.e)
      [] e.k = "fn" -> FVFn(e)
      [] OTHER -> {}
Declares(s) == IF s.k = "unpack" THEN {s.ns[j] : j \in 1..Len(s.ns)}
               ELSE IF (s.k = "let" /\ ~s.mod) \/ s.k = "class" THEN {s.n}
               ELSE IF s.k = "expr" /\ s.e.k = "unwrapinto" THEN {s.e.n} ELSE {}
FVS(s, bound) ==
    CASE s.k = "let" -> (FVE(s.e) \cup (IF s.mod THEN {s.n} ELSE {})) \ bound
      [] s.k \in {"print", "assert", "expr"} -> FVE(s.e) \ bound
      [] s.k = "ret" -> FVSeq(s.e, 1) \ bound
      [] s.k = "if" -> (FVE(s.c) \ bound) \cup FVB(s.t, 1, bound) \cup FVB(s.e, 1, bound)
      [] s.k = "while" -> (FVE(s.c) \ bound) \cup FVB(s.b, 1, bound)
      [] s.k = "from" -> ((FVE(s.a) \cup FVE(s.z) \cup FVSeq(s.step, 1)) \ bound)
                         \cup FVB(s.b, 1, bound \cup (IF s.n = "" THEN {} ELSE {s.n}))
      [] s.k = "assign" -> (FVE(s.target) \cup FVE(s.e)) \ bound
      [] s.k = "class" -> ClassFV(s) \ bound
      [] s.k = "unpack" -> FVE(s.e) \ bound
      [] OTHER -> {}
ClassFV(c) ==
    LET RECURSIVE MFV(_, _)
        MFV(ms, i) == IF i > Len(ms) THEN {}
                      ELSE FVB(ms[i].b, 1, {ms[i].ps[k].n : k \in 1..Len(ms[i].ps)} \cup {"self", "Self", c.n}) \cup MFV(ms, i + 1)
    IN MFV(c.ctor, 1) \cup MFV(c.methods, 1)
FVB(ss, i, bound) == IF i > Len(ss) THEN {} ELSE FVS(ss[i], bound) \cup FVB(ss, i + 1, bound \cup Declares(ss[i]))

Capture(f, env) == LET vis == Visible(env) fv == FVFn(f) \cap DOMAIN vis IN [n \in fv |-> vis[n]]

-----------------------------------------------------------------------------
(* state *)
Lbl(k, m, n) == [k |-> k, m |-> m, n |-> n]      \* k: "M" module top level, "F" function value, "C" class member
St0 == [cells |-> <<>>, lists |-> <<>>, maps |-> <<>>, objs |-> <<>>, out |-> <<>>,
        status |-> "ok", retv |-> VNil, hasret |-> FALSE, fuel |-> 4000,
        stack |-> <<Lbl("M", "main", "")>>,   \* activation labels, innermost last: module / function / class member
        curmod |-> "main",        \* module whose code is executing (lexical home of new function values)
        ftrace |-> <<>>, log |-> <<>>,
        mods |-> <<>>,        \* module sources of the program: Seq([name, body])
        modinit |-> <<>>,     \* names of modules whose top-level code has started, in order
        modexp |-> NoFrame2]  \* module name -> (export name -> cell id), filled while the module runs

IsOk(st) == st.status = "ok"
Failures == {"assert", "nil", "index", "key", "zerodiv", "overflow", "conversion", "range", "type", "fuel", "stack"}
Failed(st) == st.status \in Failures
FailWith(st, c) == IF IsOk(st) THEN [st EXCEPT !.status = c, !.ftrace = st.stack] ELSE st
NewCell(st, v) == [st EXCEPT !.cells = Append(@, v)]
LastCell(st) == Len(st.cells)
SetCell(st, c, v) == [st EXCEPT !.cells[c] = v]
NewList(st, xs) == [st EXCEPT !.lists = Append(@, xs)]
Emit(st, line) == [st EXCEPT !.out = Append(@, line)]
R(v, st) == [v |-> v, st |-> st]

-----------------------------------------------------------------------------
(* printing (bytecode/src/variables/primitive.rs Display) *)
RECURSIVE Show(_, _, _), ShowItems(_, _, _, _)
Show(v, st, nested) ==
    CASE v.t = "int" -> ToString(v.v)
      [] v.t = "bool" -> IF v.b THEN "true" ELSE "false"
      [] v.t = "str" -> IF nested THEN "\"" \o v.s \o "\"" ELSE v.s
      [] v.t = "nil" -> "nil"
      [] v.t = "list" -> "[" \o ShowItems(st.lists[v.id], 1, st, "") \o "]"
      [] OTHER -> "<" \o v.t \o ">"
ShowItems(xs, i, st, acc) ==
    IF i > Len(xs) THEN acc
    ELSE ShowItems(xs, i + 1, st, acc \o (IF i > 1 THEN ", " ELSE "") \o Show(xs[i], st, TRUE))

(* == : numeric/string/bool by value, nil only equals nil, lists element-wise *)
RECURSIVE ValEq(_, _, _), ListEq(_, _, _, _)
ValEq(a, b, st) ==
    CASE a.t = "nil" \/ b.t = "nil" -> a.t = b.t
      [] a.t = "int" /\ b.t = "int" -> a.v = b.v
      [] a.t = "bool" /\ b.t = "bool" -> a.b = b.b
      [] a.t = "str" /\ b.t = "str" -> a.s = b.s
      [] a.t = "list" /\ b.t = "list" -> ListEq(st.lists[a.id], st.lists[b.id], 1, st)
      [] OTHER -> FALSE
ListEq(xs, ys, i, st) == IF Len(xs) # Len(ys) THEN FALSE
                         ELSE IF i > Len(xs) THEN TRUE
                         ELSE ValEq(xs[i], ys[i], st) /\ ListEq(xs, ys, i + 1, st)

(* `is` : identity for references, value equality otherwise *)
ValIs(a, b, st) ==
    CASE a.t = "list" /\ b.t = "list" -> a.id = b.id
      [] a.t = "map" /\ b.t = "map" -> a.id = b.id
      [] a.t = "obj" /\ b.t = "obj" -> a.id = b.id
      [] OTHER -> ValEq(a, b, st)

(* list / map helpers of the heap model *)
RECURSIVE IndexOf(_, _, _, _), MapFind(_, _, _, _)
IndexOf(xs, i, v, st) == IF i > Len(xs) THEN 0 ELSE IF ValEq(xs[i], v, st) THEN i ELSE IndexOf(xs, i + 1, v, st)
MapFind(es, i, k, st) == IF i > Len(es) THEN 0 ELSE IF ValEq(es[i].k, k, st) THEN i ELSE MapFind(es, i + 1, k, st)
MapPut(es, k, v, st) == LET j == MapFind(es, 1, k, st) IN
                        IF j = 0 THEN Append(es, [k |-> k, v |-> v]) ELSE [es EXCEPT ![j].v = v]
RemoveAt(xs, j) == SubSeq(xs, 1, j - 1) \o SubSeq(xs, j + 1, Len(xs))
RECURSIVE Rev(_)
Rev(xs) == IF xs = <<>> THEN <<>> ELSE Append(Rev(Tail(xs)), Head(xs))
NewMap(st, es) == [st EXCEPT !.maps = Append(@, es)]

-----------------------------------------------------------------------------
(* binary operators on evaluated operands *)
ArithRes(r, st) == IF r.fail # "" THEN R(VNil, FailWith(st, r.fail)) ELSE R(VInt(r.v), st)

RECURSIVE Repeat(_, _)
Repeat(s, n) == IF n <= 0 THEN "" ELSE s \o Repeat(s, n - 1)

BinOp(op, a, b, st) ==
    IF a.t = "int" /\ b.t = "int" THEN
        CASE op = "+" -> ArithRes(IAdd(a.v, b.v), st)
          [] op = "-" -> ArithRes(ISub(a.v, b.v), st)
          [] op = "*" -> ArithRes(IMul(a.v, b.v), st)
          [] op = "/" -> ArithRes(IDiv(a.v, b.v), st)
          [] op = "%" -> ArithRes(IRem(a.v, b.v), st)
          [] op = "<" -> R(VBool(a.v < b.v), st)
          [] op = "<=" -> R(VBool(a.v <= b.v), st)
          [] op = ">" -> R(VBool(a.v > b.v), st)
          [] op = ">=" -> R(VBool(a.v >= b.v), st)
          [] op = "==" -> R(VBool(a.v = b.v), st)
          [] op = "!=" -> R(VBool(a.v # b.v), st)
          [] OTHER -> R(VNil, FailWith(st, "type"))
    ELSE IF op = "==" THEN R(VBool(ValEq(a, b, st)), st)
    ELSE IF op = "!=" THEN R(VBool(~ValEq(a, b, st)), st)
    ELSE IF op = "is" THEN R(VBool(ValIs(a, b, st)), st)
    ELSE IF a.t = "bool" /\ b.t = "bool" THEN
        CASE op = "&&" -> R(VBool(a.b /\ b.b), st)
          [] op = "||" -> R(VBool(a.b \/ b.b), st)
          [] op = "^" -> R(VBool(a.b # b.b), st)
          [] OTHER -> R(VNil, FailWith(st, "type"))
    ELSE IF a.t = "str" /\ op = "+" THEN R(VStr(a.s \o Show(b, st, FALSE)), st)
    ELSE IF b.t = "str" /\ op = "+" THEN R(VStr(Show(a, st, FALSE) \o b.s), st)
    \* a negative count has no text: the program stops (out of range conversion of the count)
    ELSE IF a.t = "str" /\ b.t = "int" /\ op = "*" THEN (IF b.v < 0 THEN R(VNil, FailWith(st, "conversion")) ELSE R(VStr(Repeat(a.s, b.v)), st))
    ELSE IF a.t = "int" /\ b.t = "str" /\ op = "*" THEN (IF a.v < 0 THEN R(VNil, FailWith(st, "conversion")) ELSE R(VStr(Repeat(b.s, a.v)), st))      \* `n * s`: the same text; the operands are still evaluated left to right
    ELSE R(VNil, FailWith(st, "type"))

-----------------------------------------------------------------------------
(* the evaluator *)
RECURSIVE Eval(_, _, _), EvalSeq(_, _, _, _, _), Exec(_, _, _), ExecBlock(_, _, _, _), ImportStmt(_, _, _),
          Construct(_, _, _), CallMethod(_, _, _, _), RunMember(_, _, _, _, _),
          CallValue(_, _, _), WhileLoop(_, _, _, _), FromLoop(_, _, _, _, _, _), BindParams(_, _, _, _, _),
          Builtin(_, _, _, _), AssignTo(_, _, _, _)

ER(env, st) == [env |-> env, st |-> st]
Scoped(ss, env, st) == ER(env, ExecBlock(ss, 1, PushBlock(env), st).st)

(* left-to-right evaluation of a sequence of expressions *)
EvalSeq(es, i, env, st, acc) ==
    IF i > Len(es) \/ ~IsOk(st) THEN R(acc, st)
    ELSE LET r == Eval(es[i], env, st) IN EvalSeq(es, i + 1, env, r.st, Append(acc, r.v))

Eval(e, env, st) ==
    IF ~IsOk(st) THEN R(VNil, st)
    ELSE CASE e.k = "int" -> R(VInt(e.v), st)
      [] e.k = "paren" -> Eval(e.e, env, st)           \* `( e )`: needed in source where an atom takes a single postfix
      [] e.k = "bool" -> R(VBool(e.v), st)
      [] e.k = "str" -> R(VStr(e.v), st)
      [] e.k = "nil" -> R(VNil, st)
      [] e.k = "var" -> LET c == Lookup(env, e.n) IN
                        IF c = 0 THEN R(VNil, FailWith(st, "type")) ELSE R(st.cells[c], st)
      [] e.k = "self" -> LET c == Lookup(env, "self") IN
                         IF c = 0 THEN R(VNil, FailWith(st, "type")) ELSE R(st.cells[c], st)
      [] e.k = "neg" -> LET r == Eval(e.e, env, st) IN
                        IF ~IsOk(r.st) THEN r
                        ELSE IF r.v.t # "int" THEN R(VNil, FailWith(r.st, "type"))
                        ELSE ArithRes(INeg(r.v.v), r.st)
      [] e.k = "not" -> LET r == Eval(e.e, env, st) IN
                        IF ~IsOk(r.st) THEN r
                        ELSE IF r.v.t # "bool" THEN R(VNil, FailWith(r.st, "type"))
                        ELSE R(VBool(~r.v.b), r.st)
      [] e.k = "bin" ->
           LET l == Eval(e.l, env, st) IN
           IF ~IsOk(l.st) THEN l
           ELSE IF e.op = "&&" /\ l.v.t = "bool" /\ ~l.v.b THEN R(VBool(FALSE), l.st)
           ELSE IF e.op = "||" /\ l.v.t = "bool" /\ l.v.b THEN R(VBool(TRUE), l.st)
           ELSE LET r == Eval(e.r, env, l.st) IN
                IF ~IsOk(r.st) THEN r ELSE BinOp(e.op, l.v, r.v, r.st)
      [] e.k = "list" ->
           LET r == EvalSeq(e.es, 1, env, st, <<>>) IN
           IF ~IsOk(r.st) THEN R(VNil, r.st)
           ELSE LET s2 == NewList(r.st, r.v) IN R(VList(Len(s2.lists)), s2)
      [] e.k = "map" ->
           LET ks == EvalSeq([j \in 1..Len(e.kvs) |-> e.kvs[j].key], 1, env, st, <<>>) IN
           IF ~IsOk(ks.st) THEN R(VNil, ks.st)
           ELSE LET vs == EvalSeq([j \in 1..Len(e.kvs) |-> e.kvs[j].val], 1, env, ks.st, <<>>) IN
                IF ~IsOk(vs.st) THEN R(VNil, vs.st)
                ELSE LET RECURSIVE Fill(_, _)
                         Fill(j, acc) == IF j > Len(ks.v) THEN acc ELSE Fill(j + 1, MapPut(acc, ks.v[j], vs.v[j], vs.st))
                         s2 == NewMap(vs.st, Fill(1, <<>>)) IN
                     R(VMap(Len(s2.maps)), s2)
      [] e.k = "idx" ->
           LET o == Eval(e.o, env, st) IN
           IF ~IsOk(o.st) THEN o
           ELSE LET i == Eval(e.i, env, o.st) IN
                IF ~IsOk(i.st) THEN i
                ELSE IF o.v.t = "map" THEN
                        (LET j == MapFind(i.st.maps[o.v.id], 1, i.v, i.st) IN
                         IF j = 0 THEN R(VNil, i.st) ELSE R(i.st.maps[o.v.id][j].v, i.st))
                ELSE IF i.v.t # "int" THEN R(VNil, FailWith(i.st, "type"))
                ELSE IF o.v.t = "list" THEN
                        (IF i.v.v < 0 \/ i.v.v >= Len(i.st.lists[o.v.id]) THEN R(VNil, FailWith(i.st, "index"))
                         ELSE R(i.st.lists[o.v.id][i.v.v + 1], i.st))
                ELSE IF o.v.t = "str" THEN
                        (IF i.v.v < 0 \/ i.v.v >= Len(o.v.s) THEN R(VNil, FailWith(i.st, "index"))
                         ELSE R(VStr(SubSeq(o.v.s, i.v.v + 1, i.v.v + 1)), i.st))
                ELSE R(VNil, FailWith(i.st, "type"))
      [] e.k = "fn" -> R(VFn(e, Capture(e, env), 0, st.curmod), st)
      [] e.k = "fld" ->
           LET o == Eval(e.o, env, st) IN
           IF ~IsOk(o.st) THEN o
           ELSE IF o.v.t = "module" THEN
                (IF e.n \in DOMAIN o.st.modexp[o.v.name] THEN R(o.st.cells[o.st.modexp[o.v.name][e.n]], o.st)
                 ELSE R(VNil, FailWith(o.st, "type")))        \* not exported: the compiler must have rejected this
           ELSE IF o.v.t = "obj" THEN
                (IF e.n \in DOMAIN o.st.objs[o.v.id].fields THEN R(o.st.cells[o.st.objs[o.v.id].fields[e.n]], o.st)
                 ELSE R(VNil, FailWith(o.st, "type")))
           ELSE IF o.v.t = "nil" THEN R(VNil, FailWith(o.st, "nil"))
           ELSE R(VNil, FailWith(o.st, "type"))
      [] e.k = "call" ->
           LET f == Eval(e.f, env, st) IN
           IF ~IsOk(f.st) THEN f
           ELSE LET a == EvalSeq(e.args, 1, env, f.st, <<>>) IN
                IF ~IsOk(a.st) THEN R(VNil, a.st) ELSE CallValue(f.v, a.v, a.st)
      [] e.k = "mcall" ->
           LET o == Eval(e.o, env, st) IN
           IF ~IsOk(o.st) THEN o
           ELSE LET a == EvalSeq(e.args, 1, env, o.st, <<>>) IN
                IF ~IsOk(a.st) THEN R(VNil, a.st)
                ELSE IF o.v.t = "obj" THEN CallMethod(o.v, e.m, a.v, a.st)
                ELSE IF o.v.t = "module" THEN
                     (IF e.m \in DOMAIN a.st.modexp[o.v.name] THEN CallValue(a.st.cells[a.st.modexp[o.v.name][e.m]], a.v, a.st)
                      ELSE R(VNil, FailWith(a.st, "type")))
                ELSE IF o.v.t = "nil" THEN R(VNil, FailWith(a.st, "nil"))
                ELSE Builtin(o.v, e.m, a.v, a.st)
      [] e.k = "new" ->
           LET cv == IF e.cls = "Self"
                     THEN (LET c == Lookup(env, "self") IN
                           IF c = 0 \/ st.cells[c].t # "obj" THEN VNil ELSE st.objs[st.cells[c].id].class)
                     ELSE (LET c == Lookup(env, e.cls) IN IF c = 0 THEN VNil ELSE st.cells[c]) IN
           IF cv.t # "class" THEN R(VNil, FailWith(st, "type"))
           ELSE LET a == EvalSeq(e.args, 1, env, st, <<>>) IN
                IF ~IsOk(a.st) THEN R(VNil, a.st) ELSE Construct(cv, a.v, a.st)
      [] e.k = "get" ->
           LET r == Eval(e.e, env, st) IN
           IF ~IsOk(r.st) THEN r
           ELSE IF r.v.t = "nil" THEN R(VNil, FailWith(r.st, "nil")) ELSE r
      [] e.k = "or" ->
           LET r == Eval(e.e, env, st) IN
           IF ~IsOk(r.st) THEN r
           ELSE IF r.v.t = "nil" THEN Eval(e.d, env, r.st) ELSE r
      [] OTHER -> R(VNil, FailWith(st, "type"))

(* calling a function value: fresh activation; parameters are fresh cells; the *)
(* function itself is visible as `self`                                        *)
BindParams(ps, args, i, frame, st) ==
    IF i > Len(ps) THEN ER(frame, st)
    ELSE LET s2 == NewCell(st, args[i]) IN
         BindParams(ps, args, i + 1, Bind(frame, ps[i].n, LastCell(s2)), s2)

CallValue(f, args, st) ==
    IF f.t # "fn" THEN R(VNil, FailWith(st, "type"))
    ELSE IF Len(args) # Len(f.code.ps) THEN R(VNil, FailWith(st, "type"))
    ELSE IF st.fuel <= 0 THEN R(VNil, FailWith(st, "fuel"))
    ELSE IF Len(st.stack) > 60 THEN R(VNil, FailWith(st, "fuel"))
    ELSE LET s0 == NewCell([st EXCEPT !.fuel = @ - 1, !.stack = Append(@, Lbl("F", f.home, f.code.id)), !.curmod = f.home], f)
             p == BindParams(f.code.ps, args, 1, Bind(NoFrame, "self", LastCell(s0)), s0)
             env == [own |-> <<p.env>>, cap |-> f.cap]
             r == ExecBlock(f.code.b, 1, env, p.st).st IN
         IF Failed(r) THEN R(VNil, r)
         ELSE R(IF r.status = "return" THEN r.retv ELSE VNil,
                [r EXCEPT !.status = "ok", !.retv = VNil, !.stack = st.stack, !.curmod = st.curmod])

(* objects: a constructor call makes a fresh object whose fields are fresh cells; a method *)
(* (or the constructor) runs in an activation where `self` is the object, parameters are   *)
(* fresh cells and the names the class captured from its defining scope are visible        *)
FindMember(ms, i, n) == LET hits == {k \in 1..Len(ms) : ms[k].n = n} IN IF hits = {} THEN 0 ELSE CHOOSE k \in hits : TRUE
RunMember(obj, member, args, label, st) ==
    IF Len(args) # Len(member.ps) THEN R(VNil, FailWith(st, "type"))
    ELSE IF st.fuel <= 0 \/ Len(st.stack) > 60 THEN R(VNil, FailWith(st, "fuel"))
    ELSE LET cls == st.objs[obj.id].class
             s0 == NewCell([st EXCEPT !.fuel = @ - 1, !.stack = Append(@, Lbl("C", cls.home, label)), !.curmod = cls.home], obj)
             p == BindParams(member.ps, args, 1, Bind(NoFrame, "self", LastCell(s0)), s0)
             env == [own |-> <<p.env>>, cap |-> cls.cap]
             r == ExecBlock(member.b, 1, env, p.st).st IN
         IF Failed(r) THEN R(VNil, r)
         ELSE R(IF r.status = "return" THEN r.retv ELSE VNil, [r EXCEPT !.status = "ok", !.retv = VNil, !.stack = st.stack, !.curmod = st.curmod])
RECURSIVE FieldCells(_, _, _, _)
FieldCells(fs, i, st, acc) == IF i > Len(fs) THEN ER(acc, st)
                              ELSE LET s2 == NewCell(st, VNil) IN FieldCells(fs, i + 1, s2, Bind(acc, fs[i].n, LastCell(s2)))
Construct(cv, args, st) ==
    LET fc == FieldCells(cv.decl.fields, 1, st, NoFrame)
        s1 == [fc.st EXCEPT !.objs = Append(@, [class |-> cv, fields |-> fc.env])]
        obj == VObj(Len(s1.objs)) IN
    IF Len(cv.decl.ctor) = 0 THEN (IF Len(args) = 0 THEN R(obj, s1) ELSE R(VNil, FailWith(s1, "type")))
    ELSE LET r == RunMember(obj, cv.decl.ctor[1], args, cv.decl.n \o "::$constructor", s1) IN
         IF ~IsOk(r.st) THEN R(VNil, r.st) ELSE R(obj, r.st)
CallMethod(obj, m, args, st) ==
    LET cls == st.objs[obj.id].class
        k == FindMember(cls.decl.methods, 1, m) IN
    IF k = 0 THEN R(VNil, FailWith(st, "type"))
    ELSE RunMember(obj, cls.decl.methods[k], args, cls.decl.n \o "::" \o m, st)

(* built-in methods of lists, maps, strings and functions.  Lists are heap sequences, *)
(* maps are heap sequences of [k, v] entries with distinct keys (the order is a model  *)
(* artefact: generators never observe it).                                             *)
RECURSIVE MapList(_, _, _, _, _), FilterList(_, _, _, _, _)
MapList(xs, i, f, st, acc) ==
    IF i > Len(xs) \/ ~IsOk(st) THEN R(acc, st)
    ELSE LET r == CallValue(f, <<xs[i]>>, st) IN MapList(xs, i + 1, f, r.st, Append(acc, r.v))
FilterList(xs, i, f, st, acc) ==
    IF i > Len(xs) \/ ~IsOk(st) THEN R(acc, st)
    ELSE LET r == CallValue(f, <<xs[i]>>, st) IN
         FilterList(xs, i + 1, f, r.st, IF IsOk(r.st) /\ r.v.t = "bool" /\ r.v.b THEN Append(acc, xs[i]) ELSE acc)

Builtin(o, m, args, st) ==
    IF o.t = "list" THEN
        LET xs == st.lists[o.id] IN
        CASE m = "len" -> R(VInt(Len(xs)), st)
          [] m = "push" -> R(VNil, [st EXCEPT !.lists[o.id] = Append(@, args[1])])
          [] m = "remove" ->
               IF args[1].t # "int" THEN R(VNil, FailWith(st, "type"))
               ELSE IF args[1].v < 0 \/ args[1].v >= Len(xs) THEN R(VNil, FailWith(st, "index"))
               ELSE R(xs[args[1].v + 1], [st EXCEPT !.lists[o.id] = RemoveAt(xs, args[1].v + 1)])
          [] m = "reverse" -> R(VNil, [st EXCEPT !.lists[o.id] = Rev(xs)])
          [] m = "clear" -> R(VNil, [st EXCEPT !.lists[o.id] = <<>>])
          [] m = "clone" -> LET s2 == NewList(st, xs) IN R(VList(Len(s2.lists)), s2)
          [] m = "join" ->        \* appends the elements of the argument, returns the receiver; the argument is only read
               IF args[1].t # "list" THEN R(VNil, FailWith(st, "type"))
               ELSE R(o, [st EXCEPT !.lists[o.id] = xs \o st.lists[args[1].id]])
          [] m = "index_of" -> LET j == IndexOf(xs, 1, args[1], st) IN R(IF j = 0 THEN VNil ELSE VInt(j - 1), st)
          [] m = "map" -> LET r == MapList(xs, 1, args[1], st, <<>>) IN
                          IF ~IsOk(r.st) THEN R(VNil, r.st)
                          ELSE LET s2 == NewList(r.st, r.v) IN R(VList(Len(s2.lists)), s2)
          [] m = "filter" -> LET r == FilterList(xs, 1, args[1], st, <<>>) IN
                             IF ~IsOk(r.st) THEN R(VNil, r.st)
                             ELSE LET s2 == NewList(r.st, r.v) IN R(VList(Len(s2.lists)), s2)
          [] OTHER -> R(VNil, FailWith(st, "type"))
    ELSE IF o.t = "map" THEN
        LET es == st.maps[o.id] IN
        CASE m = "len" -> R(VInt(Len(es)), st)
          [] m = "contains_key" -> R(VBool(MapFind(es, 1, args[1], st) # 0), st)
          [] m = "replace" -> LET j == MapFind(es, 1, args[1], st) IN
                              R(IF j = 0 THEN VNil ELSE es[j].v, [st EXCEPT !.maps[o.id] = MapPut(es, args[1], args[2], st)])
          [] m = "remove" -> LET j == MapFind(es, 1, args[1], st) IN
                             IF j = 0 THEN R(VNil, st) ELSE R(es[j].v, [st EXCEPT !.maps[o.id] = RemoveAt(es, j)])
          [] m = "clear" -> R(VNil, [st EXCEPT !.maps[o.id] = <<>>])
          [] m = "clone" -> LET s2 == NewMap(st, es) IN R(VMap(Len(s2.maps)), s2)
          [] m = "keys" -> LET s2 == NewList(st, [j \in 1..Len(es) |-> es[j].k]) IN R(VList(Len(s2.lists)), s2)
          [] m = "values" -> LET s2 == NewList(st, [j \in 1..Len(es) |-> es[j].v]) IN R(VList(Len(s2.lists)), s2)
          [] m = "pairs" ->
               LET RECURSIVE Pairs(_, _, _)
                   Pairs(j, s1, acc) == IF j > Len(es) THEN R(acc, s1)
                                        ELSE LET s2 == NewList(s1, <<es[j].k, es[j].v>>) IN Pairs(j + 1, s2, Append(acc, VList(Len(s2.lists))))
                   r == Pairs(1, st, <<>>)
                   s3 == NewList(r.st, r.v) IN
               R(VList(Len(s3.lists)), s3)
          [] OTHER -> R(VNil, FailWith(st, "type"))
    ELSE IF o.t = "str" THEN
        \* string built-ins (ASCII receivers: byte and character indices coincide); range errors are failures of class
        \* "index", an unusable radix is a failed conversion
        CASE m = "len" -> R(VInt(Len(o.s)), st)
          [] m = "substring" ->
               IF args[1].t # "int" \/ args[2].t # "int" THEN R(VNil, FailWith(st, "type"))
               ELSE IF args[1].v < 0 \/ args[2].v < 0 THEN R(VNil, FailWith(st, "conversion"))
               ELSE IF args[1].v > args[2].v \/ args[2].v > Len(o.s) THEN R(VNil, FailWith(st, "index"))
               ELSE R(VStr(SubSeq(o.s, args[1].v + 1, args[2].v)), st)
          [] m = "delete" ->
               IF args[1].t # "int" \/ args[2].t # "int" THEN R(VNil, FailWith(st, "type"))
               ELSE IF args[1].v < 0 \/ args[2].v < 0 THEN R(VNil, FailWith(st, "conversion"))
               ELSE IF args[1].v > args[2].v \/ args[2].v > Len(o.s) THEN R(VNil, FailWith(st, "index"))
               ELSE R(VStr(SubSeq(o.s, 1, args[1].v) \o SubSeq(o.s, args[2].v + 1, Len(o.s))), st)
          [] m = "insert" ->
               IF args[1].t # "str" \/ args[2].t # "int" THEN R(VNil, FailWith(st, "type"))
               ELSE IF args[2].v < 0 THEN R(VNil, FailWith(st, "conversion"))
               ELSE IF args[2].v > Len(o.s) THEN R(VNil, FailWith(st, "index"))
               ELSE R(VStr(SubSeq(o.s, 1, args[2].v) \o args[1].s \o SubSeq(o.s, args[2].v + 1, Len(o.s))), st)
          [] m = "parse_int_radix" ->
               IF args[1].t # "int" THEN R(VNil, FailWith(st, "type"))
               ELSE IF args[1].v < 2 \/ args[1].v > 36 THEN R(VNil, FailWith(st, "conversion"))
               ELSE R(VNil, FailWith(st, "type"))        \* the parse itself is MSStr's (C14), not modelled here
          [] OTHER -> R(VNil, FailWith(st, "type"))
    ELSE IF o.t = "fn" /\ m = "is_closure" THEN R(VBool(DOMAIN o.cap # {}), st)
    ELSE R(VNil, FailWith(st, "type"))

(* x = v : update the variable if this activation already has it, else declare *)
Store(env, st, n, v) ==
    LET c == LookupOwn(env, n) IN
    IF c # 0 THEN ER(env, SetCell(st, c, v))
    ELSE LET s2 == NewCell(st, v) IN ER(BindTop(env, n, LastCell(s2)), s2)

(* `a ?= e` stores the value of e (also nil) into the variable `a` of this activation   *)
(* (declaring it in the innermost frame if there is none) and yields whether the value *)
(* is present                                                                          *)
EvalB(e, env, st) ==
    IF e.k = "unwrapinto" THEN
        LET r == Eval(e.e, env, st) IN
        IF ~IsOk(r.st) THEN [v |-> VNil, st |-> r.st, env |-> env]
        ELSE LET w == Store(env, r.st, e.n, r.v) IN
             [v |-> VBool(r.v.t # "nil"), st |-> w.st, env |-> w.env]
    ELSE LET r == Eval(e, env, st) IN [v |-> r.v, st |-> r.st, env |-> env]

ExecBlock(ss, i, env, st) ==
    IF i > Len(ss) \/ ~IsOk(st) THEN ER(env, st)
    ELSE LET r == Exec(ss[i], env, st) IN ExecBlock(ss, i + 1, r.env, r.st)

WhileLoop(s, env, st, n) ==
    IF ~IsOk(st) THEN st
    ELSE IF st.fuel <= 0 THEN FailWith(st, "fuel")
    ELSE LET c == EvalB(s.c, env, [st EXCEPT !.fuel = @ - 1]) IN
         IF ~IsOk(c.st) THEN c.st
         ELSE IF c.v.t # "bool" THEN FailWith(c.st, "type")
         ELSE IF ~c.v.b THEN c.st
         ELSE LET b == Scoped(s.b, c.env, c.st).st IN
              IF b.status = "break" THEN [b EXCEPT !.status = "ok"]
              ELSE IF b.status = "continue" THEN WhileLoop(s, env, [b EXCEPT !.status = "ok"], n + 1)
              ELSE WhileLoop(s, env, b, n + 1)

(* from a to z [step s] [, name]: the counter lives in cell `cc`; the end bound was *)
(* evaluated once; the step expression is evaluated after every iteration           *)
FromLoop(s, env, st, cc, zv, n) ==
    IF ~IsOk(st) THEN st
    ELSE IF st.fuel <= 0 THEN FailWith(st, "fuel")
    ELSE LET cur == st.cells[cc] IN
         IF cur.t # "int" THEN FailWith(st, "type")
         ELSE IF ~(IF s.incl THEN cur.v <= zv ELSE cur.v < zv) THEN st
         ELSE LET b == Scoped(s.b, env, [st EXCEPT !.fuel = @ - 1]).st
                  b2 == IF b.status \in {"continue"} THEN [b EXCEPT !.status = "ok"] ELSE b IN
              IF b.status = "break" THEN [b EXCEPT !.status = "ok"]
              ELSE IF ~IsOk(b2) THEN b2
              ELSE LET sv == IF Len(s.step) = 0 THEN R(VInt(1), b2) ELSE Eval(s.step[1], env, b2) IN
                   IF ~IsOk(sv.st) THEN sv.st
                   ELSE IF sv.v.t # "int" \/ sv.st.cells[cc].t # "int" THEN FailWith(sv.st, "type")
                   ELSE LET nx == IAdd(sv.st.cells[cc].v, sv.v.v) IN
                        IF nx.fail # "" THEN FailWith(sv.st, nx.fail)
                        ELSE FromLoop(s, env, SetCell(sv.st, cc, VInt(nx.v)), cc, zv, n + 1)

Exec(s, env, st) ==
    IF ~IsOk(st) THEN ER(env, st)
    ELSE CASE s.k = "let" ->
           LET r == EvalB(s.e, env, st) IN
           IF ~IsOk(r.st) THEN ER(env, r.st)
           ELSE IF s.mod THEN
                (LET c == IF s.n \in DOMAIN env.cap THEN env.cap[s.n] ELSE 0 IN
                 IF c = 0 THEN ER(env, FailWith(r.st, "type")) ELSE ER(env, SetCell(r.st, c, r.v)))
           ELSE LET w == Store(r.env, r.st, s.n, r.v) IN
                IF s.export /\ Len(w.st.modinit) > 0
                THEN ER(w.env, [w.st EXCEPT !.modexp[w.st.curmod] = Bind(@, s.n, LookupOwn(w.env, s.n))])
                ELSE w
      [] s.k = "unpack" ->
           LET r == Eval(s.e, env, st) IN
           IF ~IsOk(r.st) THEN ER(env, r.st)
           ELSE IF r.v.t # "list" \/ Len(r.st.lists[r.v.id]) < Len(s.ns) THEN ER(env, FailWith(r.st, "type"))
           ELSE LET RECURSIVE Go(_, _)
                    Go(j, acc) == IF j > Len(s.ns) THEN acc ELSE Go(j + 1, Store(acc.env, acc.st, s.ns[j], r.st.lists[r.v.id][j]))
                IN Go(1, ER(env, r.st))
      [] s.k = "import" -> ImportStmt(s, env, st)
      [] s.k = "alias" -> ER(env, st)              \* `type T ...` / `export type T ...`: compile-time only
      [] s.k = "class" ->
           LET vis == Visible(env)
               fv == ClassFV(s) \cap DOMAIN vis
               c == Len(st.cells) + 1
               s2 == NewCell(st, VClass(s, [n \in fv \cup {s.n} |-> IF n = s.n THEN c ELSE vis[n]], st.curmod)) IN
           ER(BindTop(env, s.n, LastCell(s2)), s2)
      [] s.k = "print" ->
           LET r == EvalB(s.e, env, st) IN
           IF ~IsOk(r.st) THEN ER(env, r.st) ELSE ER(r.env, Emit(r.st, Show(r.v, r.st, FALSE)))
      [] s.k = "assert" ->
           LET r == Eval(s.e, env, st) IN
           IF ~IsOk(r.st) THEN ER(env, r.st)
           ELSE IF r.v.t = "bool" /\ r.v.b THEN ER(env, r.st) ELSE ER(env, FailWith(r.st, "assert"))
      [] s.k = "expr" -> LET r == EvalB(s.e, env, st) IN ER(r.env, r.st)
      [] s.k = "if" ->
           LET c == EvalB(s.c, env, st) IN
           IF ~IsOk(c.st) THEN ER(env, c.st)
           ELSE IF c.v.t # "bool" THEN ER(env, FailWith(c.st, "type"))
           ELSE IF c.v.b THEN ER(env, Scoped(s.t, c.env, c.st).st)
           ELSE IF s.haselse THEN ER(env, Scoped(s.e, c.env, c.st).st) ELSE ER(env, c.st)
      [] s.k = "while" -> ER(env, WhileLoop(s, env, st, 0))
      [] s.k = "from" ->
           LET a == Eval(s.a, env, st) IN
           IF ~IsOk(a.st) THEN ER(env, a.st)
           ELSE LET z == Eval(s.z, env, a.st) IN
           IF ~IsOk(z.st) THEN ER(env, z.st)
           ELSE IF a.v.t # "int" \/ z.v.t # "int" THEN ER(env, FailWith(z.st, "type"))
           ELSE LET existing == IF s.n = "" THEN 0 ELSE LookupOwn(env, s.n) IN
                IF existing # 0
                THEN \* colliding counter: the loop drives the existing variable, which keeps its last value
                     ER(env, FromLoop(s, env, SetCell(z.st, existing, a.v), existing, z.v.v, 0))
                ELSE LET s2 == NewCell(z.st, a.v)
                         cc == LastCell(s2)
                         env2 == IF s.n = "" THEN env ELSE BindTop(PushBlock(env), s.n, cc) IN
                     ER(env, FromLoop(s, env2, s2, cc, z.v.v, 0))
      [] s.k = "break" -> ER(env, [st EXCEPT !.status = "break"])
      [] s.k = "continue" -> ER(env, [st EXCEPT !.status = "continue"])
      [] s.k = "ret" ->
           IF Len(s.e) = 0 THEN ER(env, [st EXCEPT !.status = "return", !.retv = VNil])
           ELSE LET r == Eval(s.e[1], env, st) IN
                IF ~IsOk(r.st) THEN ER(env, r.st)
                ELSE ER(env, [r.st EXCEPT !.status = "return", !.retv = r.v])
      [] s.k = "assign" -> AssignTo(s, env, st, 0)
      [] OTHER -> ER(env, FailWith(st, "type"))

(* index / op-assignment:  target is var | idx ;  op is "=" or an arithmetic operator *)
AssignTo(s, env, st, dummy) ==
    IF s.target.k = "var" THEN
        \* `x op= e` updates the variable the name denotes lexically: a local of this function, else the captured one
        LET c == IF s.op = "=" THEN LookupOwn(env, s.target.n) ELSE Lookup(env, s.target.n) IN
        IF c = 0 THEN ER(env, FailWith(st, "type"))
        ELSE LET r == Eval(s.e, env, st) IN
             IF ~IsOk(r.st) THEN ER(env, r.st)
             ELSE IF s.op = "=" THEN ER(env, SetCell(r.st, c, r.v))
             ELSE LET b == BinOp(s.op, r.st.cells[c], r.v, r.st) IN
                  IF ~IsOk(b.st) THEN ER(env, b.st) ELSE ER(env, SetCell(b.st, c, b.v))
    ELSE IF s.target.k = "idx" THEN
        LET o == Eval(s.target.o, env, st) IN
        IF ~IsOk(o.st) THEN ER(env, o.st)
        ELSE LET i == Eval(s.target.i, env, o.st) IN
        IF ~IsOk(i.st) THEN ER(env, i.st)
        ELSE IF o.v.t = "map" THEN
             (LET r == Eval(s.e, env, i.st) IN
              IF ~IsOk(r.st) THEN ER(env, r.st)
              ELSE IF s.op = "=" THEN ER(env, [r.st EXCEPT !.maps[o.v.id] = MapPut(@, i.v, r.v, r.st)])
              ELSE LET j == MapFind(r.st.maps[o.v.id], 1, i.v, r.st) IN
                   IF j = 0 THEN ER(env, FailWith(r.st, "key"))
                   ELSE LET b == BinOp(s.op, r.st.maps[o.v.id][j].v, r.v, r.st) IN
                        IF ~IsOk(b.st) THEN ER(env, b.st)
                        ELSE ER(env, [b.st EXCEPT !.maps[o.v.id] = MapPut(@, i.v, b.v, b.st)]))
        ELSE IF o.v.t # "list" \/ i.v.t # "int" THEN ER(env, FailWith(i.st, "type"))
        ELSE IF i.v.v < 0 \/ i.v.v >= Len(i.st.lists[o.v.id]) THEN ER(env, FailWith(i.st, "index"))
        ELSE LET r == Eval(s.e, env, i.st) IN
             IF ~IsOk(r.st) THEN ER(env, r.st)
             ELSE IF s.op = "=" THEN ER(env, [r.st EXCEPT !.lists[o.v.id][i.v.v + 1] = r.v])
             ELSE LET b == BinOp(s.op, r.st.lists[o.v.id][i.v.v + 1], r.v, r.st) IN
                  IF ~IsOk(b.st) THEN ER(env, b.st)
                  ELSE ER(env, [b.st EXCEPT !.lists[o.v.id][i.v.v + 1] = b.v])
    ELSE IF s.target.k = "fld" THEN
        LET o == Eval(s.target.o, env, st) IN
        IF ~IsOk(o.st) THEN ER(env, o.st)
        ELSE IF o.v.t = "nil" THEN ER(env, FailWith(o.st, "nil"))
        ELSE IF o.v.t # "obj" \/ s.target.n \notin DOMAIN o.st.objs[o.v.id].fields THEN ER(env, FailWith(o.st, "type"))
        ELSE LET c == o.st.objs[o.v.id].fields[s.target.n]
                 r == Eval(s.e, env, o.st) IN
             IF ~IsOk(r.st) THEN ER(env, r.st)
             ELSE IF s.op = "=" THEN ER(env, SetCell(r.st, c, r.v))
             ELSE LET b == BinOp(s.op, r.st.cells[c], r.v, r.st) IN
                  IF ~IsOk(b.st) THEN ER(env, b.st) ELSE ER(env, SetCell(b.st, c, b.v))
    ELSE ER(env, FailWith(st, "type"))

(* import m  /  import a, b from m : the first executed import of a module runs its top-level *)
(* code to completion (its own environment, its own entry on the call stack) before the     *)
(* importer continues; later imports find the same instance.  `import m` binds the module,  *)
(* `import a, b from m` binds copies of the current values of the exported names.            *)
ModIndex(st, nm) == LET S == {k \in 1..Len(st.mods) : st.mods[k].name = nm} IN IF S = {} THEN 0 ELSE CHOOSE k \in S : TRUE
BaseName(path) == LET S == {k \in 1..Len(path) : SubSeq(path, k, k) = "/"} IN
                  IF S = {} THEN path ELSE SubSeq(path, (CHOOSE k \in S : \A j \in S : j <= k) + 1, Len(path))
RECURSIVE BindNames(_, _, _, _, _)
BindNames(names, i, nm, env, st) ==
    IF i > Len(names) THEN ER(env, st)
    ELSE IF names[i] \notin DOMAIN st.modexp[nm] THEN ER(env, FailWith(st, "type"))
    ELSE LET s2 == NewCell(st, st.cells[st.modexp[nm][names[i]]]) IN
         BindNames(names, i + 1, nm, BindTop(env, names[i], LastCell(s2)), s2)
ImportStmt(s, env, st) ==
    LET nm == BaseName(s.path)
        k == ModIndex(st, nm) IN
    IF k = 0 THEN ER(env, FailWith(st, "type"))
    ELSE LET s1 == IF \E j \in 1..Len(st.modinit) : st.modinit[j] = nm THEN st
                   ELSE IF st.fuel <= 0 THEN FailWith(st, "fuel")
                   ELSE LET s0 == [st EXCEPT !.modinit = Append(@, nm), !.modexp = Bind2(@, nm),
                                             !.stack = Append(@, Lbl("M", nm, "")), !.curmod = nm, !.fuel = @ - 1]
                            r == ExecBlock(st.mods[k].body, 1, Env0, s0).st IN
                        IF Failed(r) THEN r ELSE [r EXCEPT !.status = "ok", !.stack = st.stack, !.curmod = st.curmod] IN
         IF ~IsOk(s1) THEN ER(env, s1)
         ELSE IF s.form = "mod" THEN
              LET s2 == NewCell(s1, VModule(nm)) IN ER(BindTop(env, nm, LastCell(s2)), s2)
         ELSE IF s.form = "type" THEN ER(env, s1)  \* `import type T from m`: initialises m, binds no value
         ELSE BindNames(s.names, 1, nm, env, s1)

(* run a multi-module program: mods[entry] is the program, the others are importable *)
RunProject(p) ==
    LET e == p.mods[p.entry]
        s0 == [St0 EXCEPT !.mods = p.mods, !.modinit = <<e.name>>, !.modexp = Bind2(NoFrame2, e.name),
                          !.stack = <<Lbl("M", e.name, "")>>, !.curmod = e.name]
        r == ExecBlock(e.body, 1, Env0, s0).st IN
    IF r.status \in {"return", "break", "continue"} THEN [r EXCEPT !.status = "ok"] ELSE r

(* run a single-module program *)
Run(prog) == LET r == ExecBlock(prog.body, 1, Env0, St0).st IN
             IF r.status \in {"return", "break", "continue"} THEN [r EXCEPT !.status = "ok"] ELSE r
=============================================================================
