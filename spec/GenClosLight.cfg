CONSTANT MaxLen = 2
INIT Init
NEXT Next
INVARIANT EmitLight
