INIT Init
NEXT Next
INVARIANT EmitCase
