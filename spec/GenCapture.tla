------------------------------ MODULE GenCapture ------------------------------
(* Generator for C07: the capture analysis has one case per syntactic position.   *)
(* A maker function declares x and returns a function literal in which x occurs   *)
(* in exactly ONE position (the operand of a return, the fallback of an `or`, the  *)
(* step / bound / start of a `from` loop, a condition, an argument, ...).  The     *)
(* literal is called after the maker's frame is gone: directly, through a caller   *)
(* that owns its own x, and through a plain caller; with and without a module-level *)
(* x.  If the position is missed by the analysis the name is looked up dynamically *)
(* and the value differs (or the program crashes).                                 *)
EXTENDS Ast, TLC, Json

Positions == {"ret", "or", "step", "bound", "start", "whilecond", "ifcond", "elifcond", "arg", "listelem", "opassign", "neg", "concat",
              "methodarg", "nested", "assertcond", "print", "typedinit", "mapvalue", "cmp", "ifbody", "elsebody", "loopbody", "whilebody",
              "unwrapsrc", "fieldarg", "indexexpr", "retlist", "and", "not",
              \* the variable occurs only in a later bracket of a multi-bracket index whose first bracket is a constant
              "idx2read", "idx2write", "idx2opwrite", "idx2var", "idxmapread", "idxstr"}

(* second family: `modify` of a captured variable whose declared type is wider than the type of the value stored *)
ModKinds == {"mod_int", "mod_opt_set", "mod_opt_clear", "mod_opt_swap", "mod_str_longer", "mod_str_shorter", "mod_str_empty", "mod_bool", "mod_alias"}
(* ... and `modify` of a captured variable that holds a closure, with a new closure made by the same function literal *)
ClosKinds == {"mod_closure"}

(* third family: an escaped closure driven by a built-in that calls it once per element (map / filter): every call, *)
(* not only the first, must see the captured variables                                                             *)
DrvKinds == {"drv_map", "drv_filter", "drv_map_count", "drv_filter_count", "drv_map_nested"}

(* fourth family: the captured variable is a list or an object and its single use is as the *target* of a write, *)
(* as a receiver or as an indexed / dotted operand                                                              *)
RecvKinds == {"rv_idx_read", "rv_idx_write", "rv_idx_opwrite", "rv_push", "rv_len", "rv_fld_read", "rv_fld_write", "rv_fld_opwrite", "rv_method",
              "rv_idx_expr", "rv_arg", "rv_is"}

(* fifth family: the literal *writes* the captured variable (op-assignment, modify); callers on the stack own a  *)
(* variable of the same name, which must stay untouched; a module-level function does the same to a module variable *)
WrKinds == {"wr_opadd", "wr_opsub", "wr_opmul", "wr_modify", "wr_opadd_loop", "wr_opadd_if", "wr_opadd_nested"}

(* sixth family: the literals use a module-level variable, and the function that creates them declares a variable of the   *)
(* same name and type only *afterwards* (a scratch local, the counter of a later loop): when the literals are made the name  *)
(* still denotes the module-level variable, and that is the one they share - with the owner, with each other, and with the   *)
(* literals of a second run of the maker                                                                                    *)
LateKinds == {"late_local", "late_counter", "late_typed"}
(* seventh family: every level of a recursion creates closures over its own parameter and they escape into a list: each     *)
(* level has its own variables, whether the recursive call is in tail position (`return self(..)`) or not; a `modify`       *)
(* through one level's writer is seen by that level's reader only                                                           *)
RecKinds == {"rec_tail", "rec_plain"}
(* eighth family: the literal runs a `from` loop whose counter is spelled like the captured variable, and uses the name again *)
(* after the loop: the counter is a variable of the loop, the captured variable is untouched and visible again              *)
CntKinds == {"cnt_shadow_read", "cnt_shadow_modify"}

VARIABLES pos, modx
Init == pos \in Positions \cup ModKinds \cup ClosKinds \cup DrvKinds \cup RecvKinds \cup WrKinds \cup LateKinds \cup RecKinds \cup CntKinds /\ modx \in BOOLEAN
Next == UNCHANGED <<pos, modx>>

FT == "fn() -> int"
X == V("x")
Grid == <<LetT("r0", "[int...]", List(<<I(10), I(11), I(12), I(13), I(14)>>)), LetT("grid", "[[int...]...]", List(<<V("r0")>>))>>
Body(p) ==
    CASE p = "ret" -> <<Ret(X)>>
      [] p = "or" -> <<LetT("nn", "int?", Nil), Ret(Or(V("nn"), X))>>
      [] p = "step" -> <<Let("c", I(0)), From(I(0), I(7), FALSE, <<X>>, "", <<Assign(V("c"), "+", I(1))>>), Ret(V("c"))>>
      [] p = "bound" -> <<Let("c", I(0)), From(I(0), X, FALSE, <<>>, "", <<Assign(V("c"), "+", I(1))>>), Ret(V("c"))>>
      [] p = "start" -> <<Let("c", I(0)), From(X, I(5), FALSE, <<>>, "", <<Assign(V("c"), "+", I(1))>>), Ret(V("c"))>>
      [] p = "whilecond" -> <<Let("c", I(0)), While(Bin("<", V("c"), X), <<Assign(V("c"), "+", I(1))>>), Ret(V("c"))>>
      [] p = "ifcond" -> <<If(Bin("==", X, I(3)), <<Ret(I(1))>>), Ret(I(0))>>
      [] p = "elifcond" -> <<IfElif(Bin("==", I(1), I(2)), <<Ret(I(9))>>, If(Bin("==", X, I(3)), <<Ret(I(1))>>)), Ret(I(0))>>
      [] p = "arg" -> <<Let("h", Fn("h", <<P("q", "int")>>, "int", <<Ret(Bin("+", V("q"), I(1)))>>)), Ret(Call(V("h"), <<X>>))>>
      [] p = "listelem" -> <<LetT("ls", "[int...]", List(<<X, I(1)>>)), Let("k0", I(0)), Ret(Idx(V("ls"), V("k0")))>>
      [] p = "opassign" -> <<Let("c", I(1)), Assign(V("c"), "+", X), Ret(V("c"))>>
      [] p = "neg" -> <<Ret(Neg(X))>>
      [] p = "concat" -> <<Let("s", Bin("+", S("v"), X)), Print(V("s")), Ret(I(1))>>
      [] p = "methodarg" -> <<LetT("ls", "[int...]", List(<<>>)), ExprS(MCall(V("ls"), "push", <<X>>)), Let("k0", I(0)), Ret(Idx(V("ls"), V("k0")))>>
      [] p = "nested" -> <<Let("inner", Fn("inner", <<>>, "int", <<Ret(X)>>)), Ret(Call(V("inner"), <<>>))>>
      [] p = "assertcond" -> <<Assert(Bin("==", X, I(3))), Ret(I(1))>>
      [] p = "print" -> <<Print(X), Ret(I(1))>>
      [] p = "typedinit" -> <<LetT("y", "int", X), Ret(V("y"))>>
      [] p = "mapvalue" -> <<Let("mp", [k |-> "map", kt |-> "str", vt |-> "int", kvs |-> <<[key |-> S("a"), val |-> X]>>, braces |-> TRUE]), Ret(Idx(V("mp"), S("a")))>>
      [] p = "cmp" -> <<Let("b", Bin("<", I(2), X)), If(V("b"), <<Ret(I(1))>>), Ret(I(0))>>
      [] p = "ifbody" -> <<If(Bin("==", I(1), I(1)), <<Ret(X)>>), Ret(I(0))>>
      [] p = "elsebody" -> <<IfElse(Bin("==", I(1), I(2)), <<Ret(I(0))>>, <<Ret(X)>>), Ret(I(0))>>
      [] p = "loopbody" -> <<Let("c", I(0)), From(I(0), I(2), FALSE, <<>>, "", <<Assign(V("c"), "+", X)>>), Ret(V("c"))>>
      [] p = "whilebody" -> <<Let("c", I(0)), While(Bin("<", V("c"), I(5)), <<Assign(V("c"), "+", X)>>), Ret(V("c"))>>
      [] p = "unwrapsrc" -> <<LetT("w", "int?", Nil), LetT("src", "int?", X), If(UnwrapInto("w", V("src")), <<Ret(Get(V("w")))>>), Ret(I(0))>>
      [] p = "fieldarg" -> <<Let("bx", New("Bx", <<X>>)), Ret(Fld(V("bx"), "v"))>>
      [] p = "indexexpr" -> <<LetT("ls", "[int...]", List(<<I(10), I(11), I(12), I(13), I(14)>>)), Let("k", Bin("+", X, I(1))), Ret(Idx(V("ls"), V("k")))>>
      [] p = "retlist" -> <<LetT("ls", "[int...]", List(<<I(1), X>>)), Print(V("ls")), Ret(I(1))>>
      [] p = "idx2read" -> Grid \o <<Ret(Idx(Idx(V("grid"), I(0)), X))>>
      [] p = "idx2write" -> Grid \o <<Assign(Idx(Idx(V("grid"), I(0)), X), "=", I(77)), Print(V("grid")), Ret(I(1))>>
      [] p = "idx2opwrite" -> Grid \o <<Assign(Idx(Idx(V("grid"), I(0)), X), "+", I(100)), Print(V("grid")), Ret(I(1))>>
      [] p = "idx2var" -> Grid \o <<Let("k0", I(0)), Ret(Idx(Idx(V("grid"), V("k0")), X))>>
      [] p = "idxmapread" -> <<LetT("r0", "[int...]", List(<<I(10), I(11), I(12), I(13), I(14)>>)),
                               Let("mp", [k |-> "map", kt |-> "str", vt |-> "[int...]", kvs |-> <<[key |-> S("a"), val |-> V("r0")]>>, braces |-> TRUE]),
                               Ret(Idx(Idx(V("mp"), S("a")), X))>>
      [] p = "idxstr" -> <<LetT("ws", "[str...]", List(<<S("abcdef")>>)), Print(Idx(Idx(V("ws"), I(0)), X)), Ret(I(1))>>
      [] p = "and" -> <<IfElse(Bin("&&", Bin("==", I(1), I(1)), Bin("==", X, I(3))), <<Ret(I(1))>>, <<Ret(I(0))>>), Ret(I(0))>>
      [] p = "not" -> <<IfElse(Not(Bin("==", X, I(3))), <<Ret(I(0))>>, <<Ret(I(1))>>), Ret(I(0))>>

BxClass == [k |-> "class", n |-> "Bx", export |-> FALSE, fields |-> <<[n |-> "v", ty |-> "int"]>>,
            ctor |-> <<[ps |-> <<P("v0", "int")>>, b |-> <<Assign(Fld(Self, "v"), "=", V("v0"))>>]>>, methods |-> <<>>]

ModTy(k) == CASE k = "mod_int" -> "int" [] k = "mod_alias" -> "Count" [] k \in {"mod_opt_set", "mod_opt_clear", "mod_opt_swap"} -> "int?"
              [] k = "mod_bool" -> "bool" [] OTHER -> "str"
ModInit(k) == CASE k \in {"mod_int", "mod_alias"} -> I(1) [] k = "mod_opt_set" -> Nil [] k = "mod_opt_clear" -> I(4) [] k = "mod_opt_swap" -> I(4)
                [] k = "mod_str_longer" -> S("ab") [] k = "mod_str_shorter" -> S("abcd") [] k = "mod_str_empty" -> S("ab") [] k = "mod_bool" -> B(FALSE)
ModNew(k) == CASE k \in {"mod_int", "mod_alias"} -> I(2) [] k = "mod_opt_set" -> I(5) [] k = "mod_opt_clear" -> Nil [] k = "mod_opt_swap" -> I(6)
               [] k = "mod_str_longer" -> S("abcd") [] k = "mod_str_shorter" -> S("a") [] k = "mod_str_empty" -> S("") [] k = "mod_bool" -> B(TRUE)
ModProg ==
    (IF pos = "mod_alias" THEN <<[k |-> "alias", n |-> "Count", ty |-> "int", export |-> FALSE]>> ELSE <<>>) \o
    (IF modx THEN <<LetT("x", ModTy(pos), ModNew(pos))>> ELSE <<>>) \o
    <<Let("mk", Fn("mk", <<>>, FT, <<LetT("x", ModTy(pos), ModInit(pos)),
                                     Ret(Fn("lit", <<>>, "int", <<Print(X),
                                                                  \* `modify x = nil` needs the type spelled out
                                                                  [k |-> "let", n |-> "x", ty |-> (IF pos = "mod_opt_clear" THEN "int?" ELSE ""), e |-> ModNew(pos),
                                                                   mod |-> TRUE, const |-> FALSE, export |-> FALSE],
                                                                  Print(X), Print(Bin("==", X, Nil)), Ret(I(1))>>))>>)),
      Let("f", Call(V("mk"), <<>>)),
      Let("use2", Fn("use2", <<P("g", FT)>>, "int", <<Ret(Call(V("g"), <<>>))>>)),
      Print(MCall(V("f"), "is_closure", <<>>)),
      Print(Call(V("f"), <<>>)), Print(Call(V("use2"), <<V("f")>>))>>
    \o (IF modx THEN <<Print(X)>> ELSE <<>>) \o <<Print(S("end"))>>

FI == "fn(int) -> int"
FB == "fn(int) -> bool"
DrvProg ==
    (IF modx THEN <<Let("x", I(100)), Let("calls", I(1000))>> ELSE <<>>) \o
    <<LetT("src", "[int...]", List(<<I(1), I(2), I(3), I(4)>>)),
      Let("mks", Fn("mks", <<P("x", "int")>>, FI, <<Ret(Fn("sc", <<P("q", "int")>>, "int", <<Ret(Bin("*", V("q"), X))>>))>>)),
      Let("mkb", Fn("mkb", <<P("x", "int")>>, FB, <<Ret(Fn("bg", <<P("q", "int")>>, "bool", <<Ret(Bin(">", V("q"), X))>>))>>)),
      Let("mkc", Fn("mkc", <<>>, FI, <<Let("calls", I(0)),
                                       Ret(Fn("cn", <<P("q", "int")>>, "int", <<Modify("calls", Bin("+", V("calls"), I(1))), Ret(Bin("+", Bin("*", V("q"), I(10)), V("calls")))>>))>>)),
      Let("mkd", Fn("mkd", <<>>, FB, <<Let("calls", I(0)),
                                       Ret(Fn("cd", <<P("q", "int")>>, "bool", <<Modify("calls", Bin("+", V("calls"), I(1))), Ret(Bin("<", V("calls"), I(3)))>>))>>))>>
    \o (CASE pos = "drv_map" -> <<Let("sc", Call(V("mks"), <<I(3)>>)), Print(MCall(V("src"), "map", <<V("sc")>>))>>
           [] pos = "drv_filter" -> <<Let("bg", Call(V("mkb"), <<I(2)>>)), Print(MCall(V("src"), "filter", <<V("bg")>>))>>
           [] pos = "drv_map_count" -> <<Let("cn", Call(V("mkc"), <<>>)), Print(MCall(V("src"), "map", <<V("cn")>>)), Print(Call(V("cn"), <<I(0)>>))>>
           [] pos = "drv_filter_count" -> <<Let("cd", Call(V("mkd"), <<>>)), Print(MCall(V("src"), "filter", <<V("cd")>>)), Print(Call(V("cd"), <<I(0)>>))>>
           [] pos = "drv_map_nested" -> <<Let("sc", Call(V("mks"), <<I(3)>>)),
                                          Let("outer", Fn("outer", <<P("q", "int")>>, "int", <<Ret(Bin("+", Call(V("sc"), <<V("q")>>), I(1)))>>)),
                                          Print(MCall(V("src"), "map", <<V("outer")>>))>>)
    \o (IF modx THEN <<Print(X), Print(V("calls"))>> ELSE <<>>) \o <<Print(S("end"))>>

(* xs and bx are declared in the maker; the literal uses exactly one of them, once; a second literal (made in the same
   maker) observes the state afterwards *)
RvBody(p) ==
    CASE p = "rv_idx_read" -> <<Let("k0", I(0)), Ret(Idx(V("xs"), V("k0")))>>
      [] p = "rv_idx_write" -> <<Let("k0", I(0)), Assign(Idx(V("xs"), V("k0")), "=", I(5)), Ret(I(1))>>
      [] p = "rv_idx_opwrite" -> <<Let("k0", I(0)), Assign(Idx(V("xs"), V("k0")), "+", I(5)), Ret(I(1))>>
      [] p = "rv_push" -> <<ExprS(MCall(V("xs"), "push", <<I(9)>>)), Ret(I(1))>>
      [] p = "rv_len" -> <<Ret(MCall(V("xs"), "len", <<>>))>>
      [] p = "rv_fld_read" -> <<Ret(Fld(V("bx"), "v"))>>
      [] p = "rv_fld_write" -> <<Assign(Fld(V("bx"), "v"), "=", I(5)), Ret(I(1))>>
      [] p = "rv_fld_opwrite" -> <<Assign(Fld(V("bx"), "v"), "+", I(5)), Ret(I(1))>>
      [] p = "rv_method" -> <<Ret(MCall(V("bx"), "get_v", <<>>))>>
      [] p = "rv_idx_expr" -> <<Let("k0", I(0)), Ret(Bin("+", Idx(V("xs"), V("k0")), I(1)))>>
      [] p = "rv_arg" -> <<Let("h", Fn("h", <<P("q", "[int...]")>>, "int", <<Ret(MCall(V("q"), "len", <<>>))>>)), Ret(Call(V("h"), <<V("xs")>>))>>
      [] p = "rv_is" -> <<LetT("other", "[int...]", List(<<>>)), If(Bin("is", V("xs"), V("other")), <<Ret(I(1))>>), Ret(I(0))>>
RvClass == [k |-> "class", n |-> "Bx", export |-> FALSE, fields |-> <<[n |-> "v", ty |-> "int"]>>,
            ctor |-> <<[ps |-> <<P("v0", "int")>>, b |-> <<Assign(Fld(Self, "v"), "=", V("v0"))>>]>>,
            methods |-> <<[n |-> "get_v", ps |-> <<>>, rt |-> "int", b |-> <<Ret(Fld(Self, "v"))>>]>>]
RvProg ==
    <<RvClass>> \o
    (IF modx THEN <<LetT("xs", "[int...]", List(<<I(70), I(80), I(90)>>)), Let("bx", New("Bx", <<I(77)>>))>> ELSE <<>>) \o
    <<Let("mk", Fn("mk", <<>>, "[" \o FT \o "...]",
                   <<LetT("xs", "[int...]", List(<<I(1), I(2)>>)), Let("bx", New("Bx", <<I(3)>>)),
                     Let("lit", Fn("lit", <<>>, "int", RvBody(pos))),
                     Let("obs", Fn("obs", <<>>, "int", <<Print(V("xs")), Print(Fld(V("bx"), "v")), Ret(I(0))>>)),
                     Ret(List(<<V("lit"), V("obs")>>))>>)),
      Let("fs", Call(V("mk"), <<>>)), Let("z0", I(0)), Let("z1", I(1)),
      Let("f", Idx(V("fs"), V("z0"))), Let("o", Idx(V("fs"), V("z1"))),
      Let("use2", Fn("use2", <<P("g", FT)>>, "int", <<Ret(Call(V("g"), <<>>))>>)),
      Print(MCall(V("f"), "is_closure", <<>>)),
      Print(Call(V("f"), <<>>)), Print(Call(V("o"), <<>>)), Print(Call(V("use2"), <<V("f")>>)), Print(Call(V("o"), <<>>))>>
    \o (IF modx THEN <<Print(V("xs")), Print(Fld(V("bx"), "v"))>> ELSE <<>>) \o <<Print(S("end"))>>

WrBody(p) ==
    CASE p = "wr_opadd" -> <<Assign(X, "+", I(1)), Ret(X)>>
      [] p = "wr_opsub" -> <<Assign(X, "-", I(2)), Ret(X)>>
      [] p = "wr_opmul" -> <<Assign(X, "*", I(2)), Ret(X)>>
      [] p = "wr_modify" -> <<Modify("x", Bin("+", X, I(1))), Ret(X)>>
      [] p = "wr_opadd_loop" -> <<From(I(0), I(2), FALSE, <<>>, "", <<Assign(X, "+", I(1))>>), Ret(X)>>
      [] p = "wr_opadd_if" -> <<If(Bin("<", X, I(1000)), <<Assign(X, "+", I(1))>>), Ret(X)>>
      [] p = "wr_opadd_nested" -> <<Let("inner", Fn("inner", <<>>, "int", <<Assign(X, "+", I(1)), Ret(X)>>)), Ret(Call(V("inner"), <<>>))>>
WrProg ==
    (IF modx THEN <<Let("x", I(50))>> ELSE <<>>) \o
    <<Let("mk", Fn("mk", <<>>, FT, <<Let("x", I(3)), Ret(Fn("lit", <<>>, "int", WrBody(pos)))>>)),
      Let("f", Call(V("mk"), <<>>)),
      Let("use", Fn("use", <<P("g", FT)>>, "int", <<Let("x", I(99)), Let("r", Call(V("g"), <<>>)), Print(X), Ret(V("r"))>>)),
      Let("usep", Fn("usep", <<P("g", FT), P("x", "int")>>, "int", <<Let("r", Call(V("g"), <<>>)), Print(X), Ret(V("r"))>>)),
      Let("use2", Fn("use2", <<P("g", FT)>>, "int", <<Ret(Call(V("g"), <<>>))>>)),
      Print(MCall(V("f"), "is_closure", <<>>)),
      Print(Call(V("f"), <<>>)), Print(Call(V("use"), <<V("f")>>)), Print(Call(V("usep"), <<V("f"), I(200)>>)), Print(Call(V("use2"), <<V("f")>>))>>
    \o (IF modx THEN
          \* a module-level function writing the module-level x, called below a frame that owns an x
          <<Let("bump", Fn("bump", <<>>, "int", WrBody(pos))),
            Let("use3", Fn("use3", <<>>, "int", <<Let("x", I(7)), Let("r", Call(V("bump"), <<>>)), Print(X), Ret(V("r"))>>)),
            Print(Call(V("use3"), <<>>)), Print(Call(V("bump"), <<>>)), Print(X)>>
        ELSE <<>>)
    \o <<Print(S("end"))>>

ClosProg ==
    (IF modx THEN <<Let("cur", Fn("zero", <<>>, "int", <<Ret(I(0))>>))>> ELSE <<>>) \o
    <<Let("mkc", Fn("mkc", <<>>, FT, <<Let("n", I(0)), Ret(Fn("cnt", <<>>, "int", <<Modify("n", Bin("+", V("n"), I(1))), Ret(V("n"))>>))>>)),
      Let("mk", Fn("mk", <<>>, "[" \o FT \o "...]",
                   <<Let("cur", Call(V("mkc"), <<>>)),
                     Let("step", Fn("step", <<>>, "int", <<Ret(Call(V("cur"), <<>>))>>)),
                     Let("reset", Fn("reset", <<>>, "int", <<Modify("cur", Call(V("mkc"), <<>>)), Ret(I(0))>>)),
                     Ret(List(<<V("step"), V("reset")>>))>>)),
      Let("fs", Call(V("mk"), <<>>)), Let("z0", I(0)), Let("z1", I(1)),
      Let("step", Idx(V("fs"), V("z0"))), Let("reset", Idx(V("fs"), V("z1"))),
      Print(Call(V("step"), <<>>)), Print(Call(V("step"), <<>>)), Print(Call(V("reset"), <<>>)),
      Print(Call(V("step"), <<>>)), Print(Call(V("step"), <<>>)), Print(Call(V("reset"), <<>>)), Print(Call(V("step"), <<>>)),
      Print(S("end"))>>

LateProg ==
    <<Let("x", I(50)),
      Let("mk", Fn("mk", <<>>, "[" \o FT \o "...]",
                   <<Let("rd", Fn("rd", <<>>, "int", <<Ret(X)>>)),
                     Let("wr", Fn("wr", <<>>, "int", <<Modify("x", Bin("+", X, I(1))), Ret(X)>>))>>
                   \o (CASE pos = "late_local" -> <<Let("x", I(3)), Print(X)>>
                          [] pos = "late_typed" -> <<LetT("x", "int", I(3)), Print(X)>>
                          [] pos = "late_counter" -> <<From(I(0), I(2), FALSE, <<>>, "x", <<Print(X)>>)>>)
                   \o <<Ret(List(<<V("rd"), V("wr")>>))>>)),
      Let("fs", Call(V("mk"), <<>>)), Let("z0", I(0)), Let("z1", I(1)),
      Let("rd", Idx(V("fs"), V("z0"))), Let("wr", Idx(V("fs"), V("z1"))),
      Print(Call(V("rd"), <<>>)), Let("x", I(60)), Print(Call(V("rd"), <<>>)), Print(Call(V("wr"), <<>>)), Print(X), Print(Call(V("rd"), <<>>))>>
    \o (IF modx THEN <<Let("fs2", Call(V("mk"), <<>>)), Let("wr2", Idx(V("fs2"), V("z1"))), Print(Call(V("wr2"), <<>>)), Print(X), Print(Call(V("rd"), <<>>))>> ELSE <<>>)
    \o <<Print(S("end"))>>

RecProg ==
    <<LetT("rds", "[" \o FT \o "...]", List(<<>>)), LetT("wrs", "[" \o FT \o "...]", List(<<>>))>> \o
    (IF modx THEN <<Let("n", I(500))>> ELSE <<>>) \o
    <<Let("mk", Fn("mk", <<P("n", "int")>>, "int",
                   <<ExprS(MCall(V("rds"), "push", <<Fn("rd", <<>>, "int", <<Ret(Bin("*", V("n"), I(11)))>>)>>)),
                     ExprS(MCall(V("wrs"), "push", <<Fn("wr", <<>>, "int", <<Modify("n", Bin("+", V("n"), I(100))), Ret(V("n"))>>)>>)),
                     If(Bin("<=", V("n"), I(1)), <<Ret(I(0))>>)>>
                   \o (IF pos = "rec_tail" THEN <<Ret(Call(Self, <<Bin("-", V("n"), I(1))>>))>>
                       ELSE <<Let("r", Call(Self, <<Bin("-", V("n"), I(1))>>)), Ret(Bin("+", V("r"), I(1)))>>))),
      Print(Call(V("mk"), <<I(3)>>)), Let("z0", I(0)), Let("z1", I(1)), Let("z2", I(2)),
      Let("r0", Idx(V("rds"), V("z0"))), Let("r1", Idx(V("rds"), V("z1"))), Let("r2", Idx(V("rds"), V("z2"))), Let("w1", Idx(V("wrs"), V("z1"))),
      Print(Call(V("r0"), <<>>)), Print(Call(V("r1"), <<>>)), Print(Call(V("r2"), <<>>)),
      Print(Call(V("w1"), <<>>)), Print(Call(V("r0"), <<>>)), Print(Call(V("r1"), <<>>)), Print(Call(V("r2"), <<>>))>>
    \o (IF modx THEN <<Print(V("n"))>> ELSE <<>>) \o <<Print(S("end"))>>

CntProg ==
    (IF modx THEN <<Let("x", I(50))>> ELSE <<>>) \o
    <<Let("mk", Fn("mk", <<>>, "[" \o FT \o "...]",
                   <<Let("x", I(300)),
                     Let("lit", Fn("lit", <<>>, "int",
                         <<Let("acc", I(0)), From(I(0), I(3), FALSE, <<>>, "x", <<Assign(V("acc"), "+", X)>>)>>
                         \o (IF pos = "cnt_shadow_modify" THEN <<Modify("x", Bin("+", X, I(1)))>> ELSE <<>>)
                         \o <<Ret(Bin("+", X, V("acc")))>>)),
                     Let("bump", Fn("bump", <<>>, "int", <<Modify("x", Bin("+", X, I(10))), Ret(X)>>)),
                     Ret(List(<<V("lit"), V("bump")>>))>>)),
      Let("fs", Call(V("mk"), <<>>)), Let("z0", I(0)), Let("z1", I(1)),
      Let("f", Idx(V("fs"), V("z0"))), Let("b", Idx(V("fs"), V("z1"))),
      Print(Call(V("f"), <<>>)), Print(Call(V("b"), <<>>)), Print(Call(V("f"), <<>>)), Print(Call(V("b"), <<>>))>>
    \o (IF modx THEN <<Print(X)>> ELSE <<>>) \o <<Print(S("end"))>>

Prog ==
    IF pos \in RecKinds THEN RecProg ELSE
    IF pos \in CntKinds THEN CntProg ELSE
    IF pos \in LateKinds THEN LateProg ELSE
    IF pos \in ClosKinds THEN ClosProg ELSE
    IF pos \in WrKinds THEN WrProg ELSE
    IF pos \in RecvKinds THEN RvProg ELSE
    IF pos \in DrvKinds THEN DrvProg ELSE
    IF pos \in ModKinds THEN ModProg ELSE
    (IF modx THEN <<Let("x", I(50))>> ELSE <<>>) \o
    (IF pos = "fieldarg" THEN <<BxClass>> ELSE <<>>) \o
    <<Let("mk", Fn("mk", <<>>, FT, <<Let("x", I(3)), Ret(Fn("lit", <<>>, "int", Body(pos)))>>)),
      Let("f", Call(V("mk"), <<>>)),
      Let("use", Fn("use", <<P("g", FT)>>, "int", <<Let("x", I(99)), Ret(Call(V("g"), <<>>))>>)),
      Let("use2", Fn("use2", <<P("g", FT)>>, "int", <<Ret(Call(V("g"), <<>>))>>)),
      Print(MCall(V("f"), "is_closure", <<>>)),
      Print(Call(V("f"), <<>>)), Print(Call(V("use"), <<V("f")>>)), Print(Call(V("use2"), <<V("f")>>)),
      Print(S("end"))>>

EmitCase == PrintT("CASE " \o ToJson([pos |-> pos, modx |-> modx, prog |-> [body |-> Prog]]))
=============================================================================
