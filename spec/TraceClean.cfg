CONSTANTS
  TopNames = {}
  ChildNames = {}
  MaxEntries = 0
INIT TraceInit
NEXT TraceNext
INVARIANT C20
INVARIANT Verdict
