CONSTANT Budget = 0
CONSTANT UseVocab = FALSE
CONSTANT MaxEdits = 1
INIT InitE
NEXT NextE
INVARIANT EmitEdited
