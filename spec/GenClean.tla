------------------------------ MODULE GenClean ------------------------------
(* Enumerates the directory trees of MSClean (BFS = all trees up to MaxEntries; *)
(* -simulate = random deep trees), checks C20 on the model, and prints every    *)
(* tree as one replayable case.                                                 *)
EXTENDS MSClean, Json, SequencesExt

TN == {"x.mmm", "y.mmm", "x.ms", "x.mmm.bak", "x.transpiled.mmm", ".mmm", "mmm", "x.MMM", "x.mmm~",
       "a b.mmm", "e%C3%A9.mmm", "d.mmm", "..mmm", "x.", "sub"}
TNQuick == {"x.mmm", "x.ms", "x.mmm.bak", "x.transpiled.mmm", ".mmm", "mmm", "x.MMM", "x.mmm~",
       "a b.mmm", "e%C3%A9.mmm", "d.mmm", "sub"}
CN == {"x.mmm", "x.ms"}
(* names are percent-encoded where they are not ASCII (the harness decodes them when it creates the *)
(* tree and encodes what it finds afterwards): TLC's on-disk state queue does not round-trip       *)
(* non-ASCII characters of string values (0xE9 comes back as 0xFFE9).                              *)

Entries(t) == SetToSeq({[path |-> p, kind |-> t[p]] : p \in DOMAIN t})

EmitCase == phase = "building" /\ tree # NoTree =>
              PrintT("CASE " \o ToJson([entries |-> Entries(tree)]))
=============================================================================
