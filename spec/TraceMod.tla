------------------------------- MODULE TraceMod -------------------------------
(* Trace validation of hook H3 (module events) + H1 enter/leave against MSModules. *)
EXTENDS MSModules, Json, IOUtils, SequencesExt

Traces == ndJsonDeserialize(IOEnv.TRACES)
VARIABLES t, l
tvars == <<mvars, t, l>>
Ev == Traces[t].events
More == l <= Len(Ev)
E == Ev[l]
IsModuleFn(fn) == Len(fn) > 11 /\ SubSeq(fn, Len(fn) - 10, Len(fn)) = "#__module__"

TraceInit == t \in 1..Len(Traces) /\ l = 1 /\ MInit(Traces[t].entry)

Step ==
    /\ More
    /\ CASE E.e = "module_entry" /\ ~E.hit -> EntryMiss(E.path)
         [] E.e = "module_entry" /\ E.hit -> EntryHit(E.path)
         [] E.e = "module_done" -> DoneModule(E.path)
         [] E.e = "enter" /\ IsModuleFn(E.fn) -> EnterModule(E.fn)
         [] OTHER -> UNCHANGED mvars
    /\ l' = l + 1 /\ t' = t
TraceSpec == TraceInit /\ [][Step]_tvars

Accepted == ~More => PrintT("ACCEPT " \o ToJson([id |-> Traces[t].id]))
Stuck == (More /\ ~ENABLED Step) => PrintT("STUCK " \o ToJson([id |-> Traces[t].id, l |-> l, ev |-> E, cache |-> SetToSeq(cache), inited |-> inited, pending |-> pending]))
Broken == ~(InitAtMostOnce /\ OneInstance /\ InitBeforeImporterContinues) =>
            PrintT("BROKEN " \o ToJson([id |-> Traces[t].id, l |-> l, inited |-> inited]))
=============================================================================
