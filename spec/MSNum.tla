-------------------------------- MODULE MSNum --------------------------------
(* The numeric tower of MScript as exact arithmetic.                              *)
(* TLC's integers are 32-bit, so every MScript number is represented exactly:     *)
(*   integer z  = [neg : BOOLEAN, mag : Nat]   Nat = little-endian base-10^4 limbs *)
(*   double     = [cls : "fin"|"inf"|"nan", neg, m : Nat, e : Int]  value m * 2^e  *)
(* Kinds: "int" (i32), "bigint" (i128), "byte" (u8), "float" (IEEE-754 binary64). *)
(* Arith(op, a, b) returns [ok, kind, z | f] or a failure, as C05 prescribes:     *)
(* the promoted kind and the mathematically exact value, failure when the exact   *)
(* result is not representable or undefined.                                      *)
EXTENDS Integers, Sequences, TLC

Base == 10000

-----------------------------------------------------------------------------
(* naturals as limb sequences; <<>> is zero; no high zero limbs *)
RECURSIVE Strip(_)
Strip(a) == IF a # <<>> /\ a[Len(a)] = 0 THEN Strip(SubSeq(a, 1, Len(a) - 1)) ELSE a
NatOfSmall(n) == IF n = 0 THEN <<>> ELSE IF n < Base THEN <<n>>
                 ELSE IF n < Base * Base THEN <<n % Base, n \div Base>>
                 ELSE <<n % Base, (n \div Base) % Base, n \div (Base * Base)>>
Limb(a, i) == IF i <= Len(a) THEN a[i] ELSE 0
Max(x, y) == IF x > y THEN x ELSE y

RECURSIVE AddFrom(_, _, _, _)
AddFrom(a, b, i, carry) ==
    IF i > Max(Len(a), Len(b)) THEN (IF carry = 0 THEN <<>> ELSE <<carry>>)
    ELSE LET s == Limb(a, i) + Limb(b, i) + carry IN <<s % Base>> \o AddFrom(a, b, i + 1, s \div Base)
NatAdd(a, b) == AddFrom(a, b, 1, 0)

RECURSIVE CmpFrom(_, _, _)
CmpFrom(a, b, i) == IF i = 0 THEN 0
                    ELSE IF a[i] < b[i] THEN -1 ELSE IF a[i] > b[i] THEN 1 ELSE CmpFrom(a, b, i - 1)
NatCmp(a, b) == IF Len(a) < Len(b) THEN -1 ELSE IF Len(a) > Len(b) THEN 1 ELSE CmpFrom(a, b, Len(a))

RECURSIVE SubFrom(_, _, _, _)
SubFrom(a, b, i, borrow) ==      \* requires a >= b
    IF i > Len(a) THEN <<>>
    ELSE LET d == a[i] - Limb(b, i) - borrow IN
         IF d < 0 THEN <<d + Base>> \o SubFrom(a, b, i + 1, 1) ELSE <<d>> \o SubFrom(a, b, i + 1, 0)
NatSub(a, b) == Strip(SubFrom(a, b, 1, 0))

RECURSIVE MulSmallFrom(_, _, _, _)
MulSmallFrom(a, k, i, carry) ==   \* 0 <= k < Base
    IF i > Len(a) THEN (IF carry = 0 THEN <<>> ELSE <<carry>>)
    ELSE LET p == a[i] * k + carry IN <<p % Base>> \o MulSmallFrom(a, k, i + 1, p \div Base)
NatMulSmall(a, k) == IF k = 0 THEN <<>> ELSE MulSmallFrom(a, k, 1, 0)
ShiftLimbs(a, n) == IF a = <<>> THEN <<>> ELSE [i \in 1..n |-> 0] \o a
RECURSIVE MulFrom(_, _, _)
MulFrom(a, b, j) == IF j > Len(b) THEN <<>>
                    ELSE NatAdd(ShiftLimbs(NatMulSmall(a, b[j]), j - 1), MulFrom(a, b, j + 1))
NatMul(a, b) == IF a = <<>> \/ b = <<>> THEN <<>> ELSE MulFrom(a, b, 1)

(* division by a small number (1 <= k < Base) *)
RECURSIVE DivSmallFrom(_, _, _, _)
DivSmallFrom(a, k, i, rem) ==     \* from the high limb down; returns [q (high first reversed later), r]
    IF i = 0 THEN [q |-> <<>>, r |-> rem]
    ELSE LET cur == rem * Base + a[i]
             rest == DivSmallFrom(a, k, i - 1, cur % k) IN
         [q |-> Append(rest.q, cur \div k), r |-> rest.r]
NatDivSmall(a, k) == LET d == DivSmallFrom(a, k, Len(a), 0) IN [q |-> Strip(d.q), r |-> d.r]

(* long division: quotient limb by binary search (at most 14 probes per limb) *)
RECURSIVE QDigit(_, _, _, _)
QDigit(r, b, lo, hi) ==      \* largest q in lo..hi with q*b <= r
    IF lo = hi THEN lo
    ELSE LET mid == (lo + hi + 1) \div 2 IN
         IF NatCmp(NatMulSmall(b, mid), r) <= 0 THEN QDigit(r, b, mid, hi) ELSE QDigit(r, b, lo, mid - 1)
RECURSIVE LongDiv(_, _, _, _)
LongDiv(a, b, i, rem) ==
    IF i = 0 THEN [q |-> <<>>, r |-> rem]
    ELSE LET cur == Strip(<<a[i]>> \o rem)
             q == IF NatCmp(cur, b) < 0 THEN 0 ELSE QDigit(cur, b, 0, Base - 1)
             rest == LongDiv(a, b, i - 1, NatSub(cur, NatMulSmall(b, q))) IN
         [q |-> Append(rest.q, q), r |-> rest.r]
NatDivMod(a, b) == LET d == LongDiv(a, b, Len(a), <<>>) IN [q |-> Strip(d.q), r |-> d.r]    \* b # 0

RECURSIVE Pow2(_)
Pow2(n) == IF n = 0 THEN <<1>> ELSE IF n >= 13 THEN NatMulSmall(Pow2(n - 13), 8192) ELSE NatMulSmall(Pow2(n - 1), 2)
IsZero(a) == a = <<>>
IsOdd(a) == a # <<>> /\ a[1] % 2 = 1

(* number of bits of a natural (0 for zero) *)
RECURSIVE BitLenFrom(_, _)
BitLenFrom(a, n) == IF NatCmp(a, Pow2(n)) < 0 THEN n ELSE BitLenFrom(a, n + 1)
SmallBits(k) == IF k = 0 THEN 0 ELSE IF k < 2 THEN 1 ELSE IF k < 4 THEN 2 ELSE IF k < 8 THEN 3 ELSE IF k < 16 THEN 4
                ELSE IF k < 32 THEN 5 ELSE IF k < 64 THEN 6 ELSE IF k < 128 THEN 7 ELSE IF k < 256 THEN 8
                ELSE IF k < 512 THEN 9 ELSE IF k < 1024 THEN 10 ELSE IF k < 2048 THEN 11 ELSE IF k < 4096 THEN 12
                ELSE IF k < 8192 THEN 13 ELSE 14
(* lower bound estimate then exact search: 10^4 ~ 2^13.29 *)
BitLen(a) == IF a = <<>> THEN 0 ELSE BitLenFrom(a, ((Len(a) - 1) * 13) + SmallBits(a[Len(a)]) - 1)

-----------------------------------------------------------------------------
(* decimal text <-> naturals *)
DigitOf(c) == CASE c = "0" -> 0 [] c = "1" -> 1 [] c = "2" -> 2 [] c = "3" -> 3 [] c = "4" -> 4
                [] c = "5" -> 5 [] c = "6" -> 6 [] c = "7" -> 7 [] c = "8" -> 8 [] c = "9" -> 9 [] OTHER -> -1
RECURSIVE Chunk(_, _, _)
Chunk(s, lo, hi) == IF lo > hi THEN 0 ELSE Chunk(s, lo, hi - 1) * 10 + DigitOf(SubSeq(s, hi, hi))
RECURSIVE LimbsOf(_, _)
LimbsOf(s, hi) == IF hi <= 0 THEN <<>> ELSE <<Chunk(s, Max(1, hi - 3), hi)>> \o LimbsOf(s, hi - 4)
NatOfDec(s) == Strip(LimbsOf(s, Len(s)))
IntOfDec(s) == IF Len(s) > 0 /\ SubSeq(s, 1, 1) = "-" THEN [neg |-> TRUE, mag |-> NatOfDec(SubSeq(s, 2, Len(s)))]
               ELSE [neg |-> FALSE, mag |-> NatOfDec(s)]
Pad4(n) == IF n < 10 THEN "000" \o ToString(n) ELSE IF n < 100 THEN "00" \o ToString(n)
           ELSE IF n < 1000 THEN "0" \o ToString(n) ELSE ToString(n)
RECURSIVE DecFrom(_, _)
DecFrom(a, i) == IF i = 0 THEN "" ELSE (IF i = Len(a) THEN ToString(a[i]) ELSE Pad4(a[i])) \o DecFrom(a, i - 1)
DecOfNat(a) == IF a = <<>> THEN "0" ELSE DecFrom(a, Len(a))
DecOfInt(z) == (IF z.neg /\ z.mag # <<>> THEN "-" ELSE "") \o DecOfNat(z.mag)

-----------------------------------------------------------------------------
(* signed integers *)
Z(neg, mag) == [neg |-> neg /\ mag # <<>>, mag |-> mag]
ZZero == Z(FALSE, <<>>)
ZNeg(a) == Z(~a.neg, a.mag)
ZAdd(a, b) == IF a.neg = b.neg THEN Z(a.neg, NatAdd(a.mag, b.mag))
              ELSE IF NatCmp(a.mag, b.mag) >= 0 THEN Z(a.neg, NatSub(a.mag, b.mag))
              ELSE Z(b.neg, NatSub(b.mag, a.mag))
ZSub(a, b) == ZAdd(a, ZNeg(b))
ZMul(a, b) == Z(a.neg # b.neg, NatMul(a.mag, b.mag))
ZCmp(a, b) == IF a.neg /\ ~b.neg THEN -1 ELSE IF ~a.neg /\ b.neg THEN 1
              ELSE IF a.neg THEN NatCmp(b.mag, a.mag) ELSE NatCmp(a.mag, b.mag)
(* truncating division, remainder with the sign of the dividend (b # 0) *)
ZDiv(a, b) == Z(a.neg # b.neg, NatDivMod(a.mag, b.mag).q)
ZRem(a, b) == Z(a.neg, NatDivMod(a.mag, b.mag).r)

P31 == Pow2(31)
P127 == Pow2(127)
Fits(kind, z) ==
    CASE kind = "int" -> IF z.neg THEN NatCmp(z.mag, P31) <= 0 ELSE NatCmp(z.mag, P31) < 0
      [] kind = "bigint" -> IF z.neg THEN NatCmp(z.mag, P127) <= 0 ELSE NatCmp(z.mag, P127) < 0
      [] kind = "byte" -> ~z.neg /\ NatCmp(z.mag, <<256>>) < 0
Width(kind) == CASE kind = "int" -> 32 [] kind = "bigint" -> 128 [] kind = "byte" -> 8

(* promotion table of C05 *)
Promote(k1, k2) ==
    IF k1 = "float" \/ k2 = "float" THEN "float"
    ELSE IF k1 = k2 THEN k1
    ELSE IF k1 = "byte" THEN k2 ELSE IF k2 = "byte" THEN k1
    ELSE "bigint"

(* two's complement bit vectors (least significant bit first) of width w *)
RECURSIVE NatBits(_, _)
NatBits(a, w) == IF w = 0 THEN <<>> ELSE LET d == NatDivSmall(a, 2) IN <<d.r>> \o NatBits(d.q, w - 1)
ToBits(z, w) == IF ~z.neg THEN NatBits(z.mag, w) ELSE NatBits(NatSub(Pow2(w), z.mag), w)
RECURSIVE BitsNat(_, _)
BitsNat(bs, i) == IF i = 0 THEN <<>> ELSE NatAdd(NatMulSmall(BitsNat(bs, i - 1), 2), NatOfSmall(bs[Len(bs) - i + 1]))
RECURSIVE BitsVal(_, _)
BitsVal(bs, i) == IF i = 0 THEN <<>> ELSE NatAdd(NatMulSmall(BitsVal(bs, i - 1), 2), NatOfSmall(bs[i]))
UnsignedOf(bs) ==        \* value of bits (LSB first) as a natural: Horner from the top bit
    LET RECURSIVE H(_)
        H(i) == IF i = 0 THEN <<>> ELSE NatAdd(NatMulSmall(H(i - 1), 2), NatOfSmall(bs[Len(bs) - i + 1]))
    IN H(Len(bs))
FromBits(bs, signed) ==
    LET u == UnsignedOf(bs) w == Len(bs) IN
    IF signed /\ bs[w] = 1 THEN Z(TRUE, NatSub(Pow2(w), u)) ELSE Z(FALSE, u)
BitOp(op, x, y) == CASE op = "&" -> IF x = 1 /\ y = 1 THEN 1 ELSE 0
                     [] op = "|" -> IF x = 1 \/ y = 1 THEN 1 ELSE 0
                     [] op = "xor" -> IF x # y THEN 1 ELSE 0

-----------------------------------------------------------------------------
(* IEEE-754 binary64, finite values as m * 2^e with 0 <= m < 2^53 (normalised: m odd or zero is *)
(* not required; equality compares values)                                                     *)
FZero(neg) == [cls |-> "fin", neg |-> neg, m |-> <<>>, e |-> 0]
FInf(neg) == [cls |-> "inf", neg |-> neg, m |-> <<>>, e |-> 0]
FNaN == [cls |-> "nan", neg |-> FALSE, m |-> <<>>, e |-> 0]
P53 == Pow2(53)
(* round a non-negative exact value num/den * 2^e2 (den > 0) to nearest even double; normal range only: *)
(* results below 2^-1022 or above the largest finite double are reported as out of model             *)
RoundRat(neg, num, den, e2) ==
    IF num = <<>> THEN [ok |-> TRUE, f |-> FZero(neg)]
    ELSE LET lb == BitLen(num) - BitLen(den)           \* quotient has lb or lb+1 bits
             sh == 55 - lb                              \* scale so that the quotient has 55..56 bits
             n2 == IF sh >= 0 THEN NatMul(num, Pow2(sh)) ELSE num
             d2 == IF sh >= 0 THEN den ELSE NatMul(den, Pow2(0 - sh))
             qr == NatDivMod(n2, d2)
             qb == BitLen(qr.q)
             drop == qb - 53                            \* 2 or 3 extra bits
             cut == NatDivMod(qr.q, Pow2(drop))
             half == Pow2(drop - 1)
             sticky == qr.r # <<>>
             c == NatCmp(cut.r, half)
             up == c > 0 \/ (c = 0 /\ (sticky \/ IsOdd(cut.q)))
             m1 == IF up THEN NatAdd(cut.q, <<1>>) ELSE cut.q
             e1 == e2 - sh + drop
             m == IF NatCmp(m1, P53) = 0 THEN Pow2(52) ELSE m1
             e == IF NatCmp(m1, P53) = 0 THEN e1 + 1 ELSE e1 IN
         IF e + 52 > 1023 \/ e + 52 < -1022 THEN [ok |-> FALSE, f |-> FNaN]
         ELSE [ok |-> TRUE, f |-> [cls |-> "fin", neg |-> neg, m |-> m, e |-> e]]
FOfInt(z) == RoundRat(z.neg, z.mag, <<1>>, 0)

(* compare two finite doubles by value *)
FMagCmp(a, b) ==    \* |a| vs |b| : compare a.m * 2^a.e with b.m * 2^b.e
    IF a.m = <<>> /\ b.m = <<>> THEN 0 ELSE IF a.m = <<>> THEN -1 ELSE IF b.m = <<>> THEN 1
    ELSE LET ta == BitLen(a.m) + a.e tb == BitLen(b.m) + b.e IN
         IF ta < tb THEN -1 ELSE IF ta > tb THEN 1
         ELSE IF a.e >= b.e THEN NatCmp(NatMul(a.m, Pow2(a.e - b.e)), b.m)
         ELSE NatCmp(a.m, NatMul(b.m, Pow2(b.e - a.e)))
FCmp(a, b) == IF a.m = <<>> /\ b.m = <<>> THEN 0
              ELSE IF a.neg /\ ~b.neg THEN (IF a.m = <<>> /\ b.m = <<>> THEN 0 ELSE -1)
              ELSE IF ~a.neg /\ b.neg THEN 1
              ELSE IF a.neg THEN FMagCmp(b, a) ELSE FMagCmp(a, b)
FEq(a, b) == a.cls = "fin" /\ b.cls = "fin" /\ FCmp(a, b) = 0

(* exact sum of two finite doubles, then one rounding; exponent gaps beyond 64 bits: the smaller *)
(* operand is below half an ulp of the larger and cannot change the rounded result              *)
FAddFin(a, b) ==
    IF a.m = <<>> THEN [ok |-> TRUE, f |-> IF b.m = <<>> THEN FZero(a.neg /\ b.neg) ELSE b]
    ELSE IF b.m = <<>> THEN [ok |-> TRUE, f |-> a]
    ELSE LET ta == BitLen(a.m) + a.e tb == BitLen(b.m) + b.e IN
         IF ta - tb > 64 THEN [ok |-> TRUE, f |-> a]
         ELSE IF tb - ta > 64 THEN [ok |-> TRUE, f |-> b]
         ELSE LET e == IF a.e < b.e THEN a.e ELSE b.e
                  x == Z(a.neg, NatMul(a.m, Pow2(a.e - e)))
                  y == Z(b.neg, NatMul(b.m, Pow2(b.e - e)))
                  s == ZAdd(x, y) IN
              IF s.mag = <<>> THEN [ok |-> TRUE, f |-> FZero(FALSE)] ELSE RoundRat(s.neg, s.mag, <<1>>, e)
FMulFin(a, b) == IF a.m = <<>> \/ b.m = <<>> THEN [ok |-> TRUE, f |-> FZero(a.neg # b.neg)]
                 ELSE RoundRat(a.neg # b.neg, NatMul(a.m, b.m), <<1>>, a.e + b.e)
FDivFin(a, b) == IF a.m = <<>> THEN [ok |-> TRUE, f |-> FZero(a.neg # b.neg)]
                 ELSE RoundRat(a.neg # b.neg, a.m, b.m, a.e - b.e)     \* b.m # 0
(* fmod: a - trunc(a/b)*b, exact (no rounding needed), sign of a; 2^k mod m by square and multiply *)
RECURSIVE PowMod2(_, _)
PowMod2(k, m) == IF k = 0 THEN NatDivMod(<<1>>, m).r
                 ELSE LET h == PowMod2(k \div 2, m)
                          sq == NatDivMod(NatMul(h, h), m).r IN
                      IF k % 2 = 1 THEN NatDivMod(NatMulSmall(sq, 2), m).r ELSE sq
FRemFin(a, b) ==
    IF a.m = <<>> THEN [ok |-> TRUE, f |-> a]
    ELSE IF FMagCmp(a, b) < 0 THEN [ok |-> TRUE, f |-> a]
    ELSE IF a.e >= b.e
         THEN LET r == NatDivMod(NatMul(NatDivMod(a.m, b.m).r, PowMod2(a.e - b.e, b.m)), b.m).r IN
              IF r = <<>> THEN [ok |-> TRUE, f |-> FZero(a.neg)] ELSE RoundRat(a.neg, r, <<1>>, b.e)
         ELSE LET r == NatDivMod(a.m, NatMul(b.m, Pow2(b.e - a.e))).r IN
              IF r = <<>> THEN [ok |-> TRUE, f |-> FZero(a.neg)] ELSE RoundRat(a.neg, r, <<1>>, a.e)

-----------------------------------------------------------------------------
(* Display of a double: the shortest decimal numeral that reads back as the same double (Steele & White's free-format   *)
(* algorithm with exact naturals; the reader rounds to even, so the boundaries belong to the interval exactly when the   *)
(* mantissa is even), written positionally without an exponent - what Rust's `{}` prints for an f64.                    *)
FNorm(f) == LET sh == 53 - BitLen(f.m) IN [m |-> NatMul(f.m, Pow2(sh)), e |-> f.e - sh]          \* 2^52 <= m < 2^53
FHigh(r, mp, s, even) == LET c == NatCmp(NatAdd(r, mp), s) IN IF even THEN c >= 0 ELSE c > 0
RECURSIVE FScaleUp(_, _, _, _, _), FScaleDown(_, _, _, _, _, _), FGen(_, _, _, _, _, _)
FScaleUp(r, s, mp, k, even) == IF FHigh(r, mp, s, even) THEN FScaleUp(r, NatMulSmall(s, 10), mp, k + 1, even) ELSE [s |-> s, k |-> k]
FScaleDown(r, s, mp, mm, k, even) ==
    IF FHigh(NatMulSmall(r, 10), NatMulSmall(mp, 10), s, even) THEN [r |-> r, mp |-> mp, mm |-> mm, k |-> k]
    ELSE FScaleDown(NatMulSmall(r, 10), s, NatMulSmall(mp, 10), NatMulSmall(mm, 10), k - 1, even)
FGen(r, s, mp, mm, even, acc) ==
    LET qd == NatDivMod(NatMulSmall(r, 10), s)
        d == IF qd.q = <<>> THEN 0 ELSE qd.q[1]
        r2 == qd.r
        mp2 == NatMulSmall(mp, 10)
        mm2 == NatMulSmall(mm, 10)
        low == IF even THEN NatCmp(r2, mm2) <= 0 ELSE NatCmp(r2, mm2) < 0
        high == FHigh(r2, mp2, s, even) IN
    IF ~low /\ ~high THEN FGen(r2, s, mp2, mm2, even, Append(acc, d))
    ELSE IF low /\ ~high THEN Append(acc, d)
    ELSE IF ~low /\ high THEN Append(acc, d + 1)
    ELSE IF NatCmp(NatMulSmall(r2, 2), s) < 0 THEN Append(acc, d) ELSE Append(acc, d + 1)
(* digits ds and exponent k with |f| = 0.ds * 10^k *)
FDigits(f) ==
    LET n0 == FNorm(f)
        \* below 2^-1022 the doubles are the multiples of 2^-1074 (subnormal): the mantissa has fewer bits and both neighbours
        \* are one such step away - also for the smallest normal double, whose lower neighbour is the largest subnormal one
        n == IF n0.e < -1074 THEN [m |-> NatDivMod(n0.m, Pow2(-1074 - n0.e)).q, e |-> -1074] ELSE n0
        even == ~IsOdd(n.m)
        narrow == NatCmp(n.m, Pow2(52)) = 0 /\ n.e > -1074    \* the lower neighbour is half as far away
        r0 == IF n.e >= 0 THEN NatMul(n.m, Pow2(n.e + (IF narrow THEN 2 ELSE 1))) ELSE NatMulSmall(n.m, IF narrow THEN 4 ELSE 2)
        s0 == IF n.e >= 0 THEN (IF narrow THEN <<4>> ELSE <<2>>) ELSE Pow2((IF narrow THEN 2 ELSE 1) - n.e)
        mp0 == IF n.e >= 0 THEN Pow2(n.e + (IF narrow THEN 1 ELSE 0)) ELSE (IF narrow THEN <<2>> ELSE <<1>>)
        mm0 == IF n.e >= 0 THEN Pow2(n.e) ELSE <<1>>
        up == FScaleUp(r0, s0, mp0, 0, even)
        dn == FScaleDown(r0, up.s, mp0, mm0, up.k, even) IN
    [ds |-> FGen(dn.r, up.s, dn.mp, dn.mm, even, <<>>), k |-> dn.k]
RECURSIVE DigitStr(_, _, _), Zeros(_)
DigitStr(ds, i, j) == IF i > j THEN "" ELSE ToString(ds[i]) \o DigitStr(ds, i + 1, j)
Zeros(n) == IF n <= 0 THEN "" ELSE "0" \o Zeros(n - 1)
FloatText(f) ==
    IF f.cls = "nan" THEN "NaN"
    ELSE (IF f.neg THEN "-" ELSE "") \o
         (IF f.cls = "inf" THEN "inf"
          ELSE IF f.m = <<>> THEN "0"
          ELSE LET x == FDigits(f) n == Len(x.ds) IN
               IF x.k <= 0 THEN "0." \o Zeros(0 - x.k) \o DigitStr(x.ds, 1, n)
               ELSE IF x.k >= n THEN DigitStr(x.ds, 1, n) \o Zeros(x.k - n)
               ELSE DigitStr(x.ds, 1, x.k) \o "." \o DigitStr(x.ds, x.k + 1, n))

-----------------------------------------------------------------------------
(* values: [kind, z] for integer kinds, [kind |-> "float", f] for doubles *)
VI(kind, z) == [kind |-> kind, z |-> z]
VF(f) == [kind |-> "float", f |-> f]
Failure(c) == [ok |-> FALSE, oom |-> FALSE, why |-> c]
OutOfModel == [ok |-> FALSE, oom |-> TRUE, why |-> "out of model"]
Value(v) == [ok |-> TRUE, oom |-> FALSE, v |-> v]
Bool(b) == [ok |-> TRUE, oom |-> FALSE, v |-> [kind |-> "bool", b |-> b]]

AsFloat(v) == IF v.kind = "float" THEN [ok |-> TRUE, f |-> v.f] ELSE FOfInt(v.z)
IsZeroVal(v) == IF v.kind = "float" THEN v.f.cls = "fin" /\ v.f.m = <<>> ELSE v.z.mag = <<>>

IntArith(op, k, a, b) ==
    CASE op = "+" -> LET z == ZAdd(a, b) IN IF Fits(k, z) THEN Value(VI(k, z)) ELSE Failure("overflow")
      [] op = "-" -> LET z == ZSub(a, b) IN IF Fits(k, z) THEN Value(VI(k, z)) ELSE Failure("overflow")
      [] op = "*" -> LET z == ZMul(a, b) IN IF Fits(k, z) THEN Value(VI(k, z)) ELSE Failure("overflow")
      [] op = "/" -> IF b.mag = <<>> THEN Failure("zerodiv")
                     ELSE LET z == ZDiv(a, b) IN IF Fits(k, z) THEN Value(VI(k, z)) ELSE Failure("overflow")
      [] op = "%" -> IF b.mag = <<>> THEN Failure("zerodiv") ELSE Value(VI(k, ZRem(a, b)))
      [] op \in {"&", "|", "xor"} ->
           LET w == Width(k) x == ToBits(a, w) y == ToBits(b, w) IN
           Value(VI(k, FromBits([i \in 1..w |-> BitOp(op, x[i], y[i])], k # "byte")))
FloatArith(op, a, b) ==
    IF a.cls # "fin" \/ b.cls # "fin" THEN OutOfModel
    ELSE LET r == CASE op = "+" -> FAddFin(a, b)
                    [] op = "-" -> FAddFin(a, [b EXCEPT !.neg = ~@])
                    [] op = "*" -> FMulFin(a, b)
                    [] op = "/" -> FDivFin(a, b)
                    [] op = "%" -> FRemFin(a, b) IN
         IF r.ok THEN Value(VF(r.f)) ELSE OutOfModel

(* shifts: the left operand is a bit pattern of the promoted width; only the amount has a range *)
Shift(op, k, a, b) ==
    LET w == Width(k) IN
    IF b.neg \/ NatCmp(b.mag, NatOfSmall(w)) >= 0 THEN Failure("shift amount")
    ELSE LET n == IF b.mag = <<>> THEN 0 ELSE b.mag[1]
             x == ToBits(a, w)
             fill == IF op = ">>" /\ k # "byte" THEN x[w] ELSE 0
             y == IF op = "<<" THEN [i \in 1..w |-> IF i - n >= 1 THEN x[i - n] ELSE 0]
                  ELSE [i \in 1..w |-> IF i + n <= w THEN x[i + n] ELSE fill] IN
         Value(VI(k, FromBits(y, k # "byte")))

Compare(op, a, b) ==
    LET c == IF a.kind = "float" \/ b.kind = "float"
             THEN (LET x == AsFloat(a) y == AsFloat(b) IN
                   IF ~x.ok \/ ~y.ok \/ x.f.cls # "fin" \/ y.f.cls # "fin" THEN 99 ELSE FCmp(x.f, y.f))
             ELSE ZCmp(a.z, b.z) IN
    IF c = 99 THEN OutOfModel
    ELSE Bool(CASE op = "<" -> c < 0 [] op = "<=" -> c <= 0 [] op = ">" -> c > 0 [] op = ">=" -> c >= 0
                [] op = "==" -> c = 0 [] op = "!=" -> c # 0)

Arith(op, a, b) ==
    LET k == Promote(a.kind, b.kind) IN
    IF op \in {"<", "<=", ">", ">=", "==", "!="} THEN Compare(op, a, b)
    ELSE IF op \in {"<<", ">>"} THEN
        (IF k = "float" THEN Failure("type") ELSE Shift(op, k, a.z, b.z))
    ELSE IF k = "float" THEN
        (IF op \in {"&", "|", "xor"} THEN Failure("type")
         ELSE IF op \in {"/", "%"} /\ IsZeroVal(b) THEN Failure("zerodiv")
         ELSE LET x == AsFloat(a) y == AsFloat(b) IN
              IF ~x.ok \/ ~y.ok THEN OutOfModel ELSE FloatArith(op, x.f, y.f))
    ELSE IntArith(op, k, a.z, b.z)

Negate(a) == IF a.kind = "float" THEN Value(VF([a.f EXCEPT !.neg = ~@]))
             ELSE IF a.kind = "byte" THEN Failure("type")
             ELSE LET z == ZNeg(a.z) IN IF Fits(a.kind, z) THEN Value(VI(a.kind, z)) ELSE Failure("overflow")
=============================================================================
