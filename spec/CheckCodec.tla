------------------------------ MODULE CheckCodec ------------------------------
(* Judge for C04 / C18.  One record per program: what `run` (bytecode kept in    *)
(* memory), `compile`+`execute` (binary file) and raw-text+`transpile`+`execute`  *)
(* did, plus canonical dumps of the functions each loader ended up with (hook H4).*)
(* For literal cases the record also carries the literal body, and the model's    *)
(* prediction (MSCodec!Decode) is bound to the argument the compiler emitted.     *)
EXTENDS MSCodec, Json, IOUtils

Obs == ndJsonDeserialize(IOEnv.OBS)

VARIABLE i
Init == i \in 1..Len(Obs)
Next == UNCHANGED i

SamePath(a, b) == a.exit = b.exit /\ a.out = b.out /\ a.dump = b.dump

C04Holds(o) == o.compiled => SamePath(o.run, o.exec)
C18Holds(o) == (o.compiled /\ o.has_text) => SamePath(o.run, o.text)

(* binding of the model to the compiler: the literal decodes to what the model says *)
ModelBound(o) ==
    o.is_literal_case =>
        /\ Decode(o.body).ok = o.compiled
        /\ o.compiled => o.mem_arg = Decode(o.body).arg

Verdict ==
    LET o == Obs[i] IN
    /\ C04Holds(o) \/ PrintT("CFOUR " \o ToJson([id |-> o.id]))
    /\ C18Holds(o) \/ PrintT("CEIGHTEEN " \o ToJson([id |-> o.id]))
    /\ ModelBound(o) \/ PrintT("MODEL " \o ToJson([id |-> o.id, predicted_ok |-> Decode(o.body).ok,
                                                  predicted |-> Decode(o.body).arg]))
=============================================================================
