-------------------------------- MODULE MSFfi --------------------------------
(* C19: the foreign-call convention.  A tiny machine over the caller's operand   *)
(* stack: Push, CallLib, PrintAll, Void.  `call_lib` hands the whole operand     *)
(* stack, in order and unchanged, to the named foreign function, clears it, and   *)
(* pushes the returned value (if any); an error raised by the function, a missing *)
(* library or a missing symbol stops the program: no later instruction runs.      *)
EXTENDS Integers, Sequences, TLC, Json, IOUtils

(* value table: kind, the text used to build it in bytecode (make_<kind> <src>), how  *)
(* Rust's Debug shows it to the foreign function, how `printn` displays it              *)
Vals == << [kind |-> "int", src |-> "5", dbg |-> "Int(5)", shown |-> "5"],
           [kind |-> "str", src |-> "a b", dbg |-> "Str(\"a b\")", shown |-> "a b"],
           [kind |-> "float", src |-> "1.5", dbg |-> "Float(1.5)", shown |-> "1.5"],
           [kind |-> "bigint", src |-> "170141183460469231731687303715884105727", dbg |-> "BigInt(170141183460469231731687303715884105727)", shown |-> "170141183460469231731687303715884105727"],
           [kind |-> "byte", src |-> "0b101", dbg |-> "Byte(5)", shown |-> "0b101"],
           [kind |-> "bool", src |-> "true", dbg |-> "Bool(true)", shown |-> "true"],
           [kind |-> "int", src |-> "-2147483648", dbg |-> "Int(-2147483648)", shown |-> "-2147483648"],
           [kind |-> "str", src |-> "", dbg |-> "Str(\"\")", shown |-> ""],
           [kind |-> "float", src |-> "-0.5", dbg |-> "Float(-0.5)", shown |-> "-0.5"],
           [kind |-> "bigint", src |-> "-1", dbg |-> "BigInt(-1)", shown |-> "-1"],
           [kind |-> "byte", src |-> "0b11111111", dbg |-> "Byte(255)", shown |-> "0b11111111"],
           [kind |-> "bool", src |-> "false", dbg |-> "Bool(false)", shown |-> "false"] >>
Calls == {"probe_echo", "probe_last", "probe_none", "probe_fail", "missing_symbol", "missing_library"}

RECURSIVE JoinWith(_, _, _, _)
JoinWith(xs, i, sep, f) == IF i > Len(xs) THEN "" ELSE (IF i > 1 THEN sep ELSE "") \o f[i] \o JoinWith(xs, i + 1, sep, f)
DebugSlice(stack) == "[" \o JoinWith(stack, 1, ", ", [k \in 1..Len(stack) |-> stack[k].dbg]) \o "]"
ShownAll(stack) == JoinWith(stack, 1, ", ", [k \in 1..Len(stack) |-> stack[k].shown])

StrVal(s) == [kind |-> "str", src |-> s, dbg |-> "?", shown |-> s]

(* the program of one case: push the arguments, call, print what came back, go on *)
Prog(c) == IF "where" \in DOMAIN c /\ c.where = "module_tail"
           THEN \* the foreign call is the last thing the program does (`call_lib` directly before the module's `ret`)
                [k \in 1..Len(c.args) |-> [op |-> "push", v |-> Vals[c.args[k]]]] \o << [op |-> "call", f |-> c.call] >>
           ELSE
           [k \in 1..Len(c.args) |-> [op |-> "push", v |-> Vals[c.args[k]]]]
           \o << [op |-> "call", f |-> c.call], [op |-> "print"], [op |-> "void"] >>
           \* optionally a second foreign call with its own (single) argument: stale operands or a
           \* cached library / symbol of the first call must not leak into it
           \o (IF c.call2 = "" THEN <<>>
               ELSE [k \in 1..Len(c.args2) |-> [op |-> "push", v |-> Vals[c.args2[k]]]]
                    \o << [op |-> "call", f |-> c.call2], [op |-> "print"], [op |-> "void"] >>)
           \o << [op |-> "push", v |-> StrVal("after")], [op |-> "print"], [op |-> "void"] >>

(* deterministic execution as a function (used by the judge and by the generator's invariant) *)
RECURSIVE Exec(_, _, _)
Exec(p, k, s) ==
    IF k > Len(p) \/ s.status # "run" THEN s
    ELSE LET i == p[k] IN
         Exec(p, k + 1,
              CASE i.op = "push" -> [s EXCEPT !.stack = Append(@, i.v)]
                [] i.op = "print" -> [s EXCEPT !.out = Append(@, ShownAll(s.stack))]
                [] i.op = "void" -> [s EXCEPT !.stack = <<>>]
                [] i.op = "call" ->
                     CASE i.f = "probe_echo" -> [s EXCEPT !.stack = <<StrVal(DebugSlice(s.stack))>>]
                       [] i.f = "probe_last" -> [s EXCEPT !.stack = IF s.stack = <<>> THEN <<>> ELSE <<s.stack[Len(s.stack)]>>]
                       [] i.f = "probe_none" -> [s EXCEPT !.stack = <<>>, !.out = Append(@, "probe_none " \o DebugSlice(s.stack))]
                       [] i.f = "probe_fail" -> [s EXCEPT !.status = "failed", !.msg = "FFI: boom:" \o ToString(Len(s.stack))]
                       [] i.f = "missing_symbol" -> [s EXCEPT !.status = "failed", !.msg = "Could not find symbol"]
                       [] i.f = "missing_library" -> [s EXCEPT !.status = "failed", !.msg = "Could not open FFI Library"])
S0 == [stack |-> <<>>, out |-> <<>>, status |-> "run", msg |-> ""]
Expected(c) == Exec(Prog(c), 1, S0)
=============================================================================
