CONSTANT MaxLen = 1
INIT Init
NEXT Next
INVARIANT EmitCase
