------------------------------- MODULE CheckNum -------------------------------
(* Judge for C05 (and the self-test of MSNum): one case = operator, two operands,  *)
(* and an observation (from the real binary, or from the reference calculator in   *)
(* self-test mode).  TLC evaluates MSNum!Arith and compares kind and exact value.   *)
EXTENDS MSNum, Json, IOUtils

Cases == ndJsonDeserialize(IOEnv.CASES)
VARIABLE i
Init == i \in 1..Len(Cases)
Next == UNCHANGED i

ValOf(j) == IF j.kind = "float"
            THEN VF([cls |-> j.cls, neg |-> j.neg, m |-> NatOfDec(j.m), e |-> j.e])
            ELSE VI(j.kind, IntOfDec(j.dec))

SameValue(v, j) ==
    /\ v.kind = j.kind
    /\ CASE v.kind = "float" -> j.cls = "fin" /\ FCmp(v.f, ValOf(j).f) = 0 /\ (v.f.m = <<>> => v.f.neg = ValOf(j).f.neg)    \* the sign of a zero is part of the IEEE result
         [] v.kind = "bool" -> v.b = j.b
         [] OTHER -> ZCmp(v.z, IntOfDec(j.dec)) = 0

Show(v) == CASE v.kind = "float" -> [kind |-> "float", neg |-> v.f.neg, m |-> DecOfNat(v.f.m), e |-> v.f.e]
             [] v.kind = "bool" -> [kind |-> "bool", b |-> v.b]
             [] OTHER -> [kind |-> v.kind, dec |-> DecOfInt(v.z)]

Judge ==
    LET c == Cases[i]
        r == IF c.op = "neg" THEN Negate(ValOf(c.a)) ELSE Arith(c.op, ValOf(c.a), ValOf(c.b)) IN
    IF ~r.ok /\ r.oom THEN PrintT("SKIP " \o ToJson([id |-> c.id]))
    ELSE IF r.ok THEN
        \* an operator only reads its operands: the slots they were read from hold what they held before
        (c.obs.status = "ok" /\ SameValue(r.v, c.obs.val) /\ c.obs.intact)
        \/ PrintT("DISAGREE " \o ToJson([id |-> c.id, expected |-> Show(r.v), why |-> IF c.obs.status = "ok" /\ ~c.obs.intact THEN "operand slot changed" ELSE "value"]))
    ELSE c.obs.status = "fail" \/ PrintT("DISAGREE " \o ToJson([id |-> c.id, expected |-> [fail |-> r.why], why |-> "must fail"]))
=============================================================================
