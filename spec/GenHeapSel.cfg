CONSTANT MaxLen = 1
CONSTANT Modes = {"list", "map"}
INIT InitSel
NEXT Stutter
INVARIANT EmitCase
