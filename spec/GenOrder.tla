------------------------------- MODULE GenOrder -------------------------------
(* Generator for C15: expression trees whose leaves are logging calls.  A tree  *)
(* is built as a typed prefix (Polish) token sequence: the state holds the      *)
(* tokens chosen so far and the stack of still-open operand positions, so that  *)
(* BFS enumerates every tree up to MaxDepth and -simulate samples deeper ones.  *)
EXTENDS Ast, TLC, Json

CONSTANTS MaxDepth, Roots

VARIABLES toks, pend
vars == <<toks, pend>>

(* production -> operand types, left to right *)
(* VAR reads the global counter `cnt`, BUMP increments it through `modify` and returns it: a later   *)
(* sibling must not disturb the value an earlier operand already produced                            *)
(* ELEM / FLD read a list element / an object field, PUT / FBUMP write that very slot and return it    *)
(* idxcall: `(mkl(n))[<index>]` - the indexed expression is evaluated before the subscript; idxswap: `cur[swp()]` where swp() re-points cur *)
IntProds == {"L", "add", "sub", "mul", "call2", "call3", "orp", "orn", "rec", "neg", "VAR", "BUMP", "ELEM", "PUT", "FLD", "FBUMP", "idxcall", "idxswap", "rep", "repr"}
(* rep / repr: `(n * s).len()` and `(s * n).len()` with a logging count and a logging text: operands of different types *)
(* KT / KF are the literals true / false (no side effect): folding must not drop a sibling *)
(* BELEM / BFLD read a bool out of a list element / an object field (what reaches the operator or the condition is a view) *)
(* orself / andself: `a || self.noisy()` / `a && self.noisy()` inside a method (the right operand names no variable) *)
(* DIVZ: `7 / zz > 0` with zz = 0 - an operand without any call or write that fails when it is evaluated: behind a deciding *)
(* left operand of && / || it is not evaluated, and the program goes on                                                  *)
BoolProds == {"LT", "LF", "and", "or", "lt", "eq", "not", "andor", "KT", "KF", "BELEM", "BFLD", "orself", "andself", "DIVZ"}
IxProds == {"LI0", "LI1"}
(* listself / callself / sumself: a zero-argument recursive call `self()` as a later element / argument / operand, after a plain *)
(* name (the earlier value is on the operand stack while the callee runs)                                                      *)
(* opidx / opidx2: `cells2[nexti()] += 5`, `cells2[nexti()] = 7` - the index of an (op-)assignment target has a side effect and is  *)
(* evaluated exactly once (read and write go to the same slot).  The value is a literal: whether the value or the target path    *)
(* comes first is not something the property speaks about.                                                                        *)
RootProds == {"printi", "printb", "list3", "call4", "ifb", "assign2", "listidx", "map3", "mcall2", "listself", "callself", "sumself", "opidx", "opidx2"}
Kids(p) ==
    CASE p \in {"L", "LT", "LF", "LI0", "LI1", "VAR", "BUMP", "KT", "KF", "ELEM", "PUT", "FLD", "FBUMP", "listself", "callself", "sumself", "BELEM", "BFLD", "idxswap", "DIVZ", "opidx", "opidx2"} -> <<>>
      [] p \in {"idxcall", "rep", "repr"} -> <<"ix">>
      [] p \in {"orself", "andself"} -> <<"bool">>
      [] p \in {"add", "sub", "mul", "call2", "lt", "eq"} -> <<"int", "int">>
      [] p = "call3" -> <<"int", "int", "int">>
      [] p = "listidx" -> <<"int", "int", "ix">>
      [] p \in {"orp", "orn", "rec", "neg"} -> <<"int">>
      [] p \in {"and", "or"} -> <<"bool", "bool">>
      [] p = "andor" -> <<"bool", "bool", "bool">>
      [] p = "not" -> <<"bool">>
      [] p = "printi" -> <<"int">>
      [] p = "printb" -> <<"bool">>
      [] p \in {"list3", "map3"} -> <<"int", "int", "int">>
      [] p = "mcall2" -> <<"int", "int">>
      [] p = "call4" -> <<"int", "int", "int", "int">>
      [] p = "ifb" -> <<"bool">>
      [] p = "assign2" -> <<"int", "int">>
Prods(ty) == CASE ty = "int" -> IntProds [] ty = "bool" -> BoolProds [] ty = "ix" -> IxProds [] ty = "root" -> Roots
Leafs(ty) == CASE ty = "int" -> {"L", "VAR", "BUMP", "ELEM", "PUT", "FLD", "FBUMP", "idxswap"} [] ty = "bool" -> {"LT", "LF", "KT", "KF", "BELEM", "BFLD", "DIVZ"} [] ty = "ix" -> IxProds [] ty = "root" -> {}

Init == toks = <<>> /\ pend = <<[ty |-> "root", d |-> 0]>>
Choose(p) ==
    /\ pend # <<>>
    /\ LET h == Head(pend) IN
       /\ p \in (IF h.d >= MaxDepth THEN Leafs(h.ty) ELSE Prods(h.ty))
       /\ toks' = Append(toks, p)
       /\ pend' = [k \in 1..Len(Kids(p)) |-> [ty |-> Kids(p)[k], d |-> h.d + 1]] \o Tail(pend)
Next == \E p \in IntProds \cup BoolProds \cup IxProds \cup RootProds : Choose(p)

-----------------------------------------------------------------------------
(* prefix tokens -> AST.  Parse(i) returns [e, nx] ; leaf ids are token positions *)
RECURSIVE Parse(_, _)
ParseN(ts, i, n) ==   \* n consecutive operands starting at token i
    LET RECURSIVE Go(_, _, _)
        Go(j, k, acc) == IF k = 0 THEN [es |-> acc, nx |-> j]
                         ELSE LET r == Parse(ts, j) IN Go(r.nx, k - 1, Append(acc, r.e))
    IN Go(i, n, <<>>)
LogI(k) == Call(V("lg"), <<I(k)>>)
Parse(ts, i) ==
    LET p == ts[i]
        a == ParseN(ts, i + 1, Len(Kids(p)))
        x == a.es IN
    [nx |-> a.nx,
     ix |-> IF p = "listidx" THEN x[3] ELSE Nil,
     e |-> CASE p = "L" -> LogI(i)
             [] p = "VAR" -> V("cnt")
             [] p = "BUMP" -> Call(V("bump"), <<>>)
             [] p = "ELEM" -> Idx(V("cells"), V("z0"))
             [] p = "PUT" -> Call(V("put"), <<>>)
             [] p = "FLD" -> Fld(V("box"), "n")
             [] p = "FBUMP" -> MCall(V("box"), "bump", <<>>)
             [] p = "idxcall" -> Idx([k |-> "paren", e |-> Call(V("mkl"), <<I(i)>>)], x[1])
             [] p = "idxswap" -> Idx(V("cur"), Call(V("swp"), <<>>))
             [] p = "orself" -> MCall(V("box"), "orself", <<x[1]>>)
             [] p = "andself" -> MCall(V("box"), "andself", <<x[1]>>)
             [] p = "BELEM" -> Idx(V("bcells"), V("z0"))
             [] p = "BFLD" -> Fld(V("box"), "on")
             [] p = "DIVZ" -> Bin(">", Bin("/", I(7), V("zz")), I(0))
             [] p = "rep" -> MCall([k |-> "paren", e |-> Bin("*", x[1], Call(V("ls"), <<I(i)>>))], "len", <<>>)
             [] p = "repr" -> MCall([k |-> "paren", e |-> Bin("*", Call(V("ls"), <<I(i)>>), x[1])], "len", <<>>)
             [] p = "KT" -> B(TRUE)
             [] p = "KF" -> B(FALSE)
             [] p = "LT" -> Call(V("lb"), <<I(i), B(TRUE)>>)
             [] p = "LF" -> Call(V("lb"), <<I(i), B(FALSE)>>)
             [] p = "LI0" -> Call(V("ix"), <<I(i), I(0)>>)
             [] p = "LI1" -> Call(V("ix"), <<I(i), I(1)>>)
             [] p = "add" -> Bin("+", x[1], x[2])
             [] p = "sub" -> Bin("-", x[1], x[2])
             [] p = "mul" -> Bin("*", x[1], x[2])
             [] p = "neg" -> Neg(x[1])
             [] p = "call2" -> Call(V("f2"), x)
             [] p = "call3" -> Call(V("f3"), x)
             [] p = "orp" -> Or(Call(V("op"), <<I(i)>>), x[1])
             [] p = "orn" -> Or(Call(V("on"), <<I(i)>>), x[1])
             [] p = "rec" -> Call(V("down"), <<Bin("%", x[1], I(3))>>)
             [] p = "and" -> Bin("&&", x[1], x[2])
             [] p = "or" -> Bin("||", x[1], x[2])
             [] p = "andor" -> Bin("||", Bin("&&", x[1], x[2]), x[3])
             [] p = "lt" -> Bin("<", x[1], x[2])
             [] p = "eq" -> Bin("==", x[1], x[2])
             [] p = "not" -> Not(x[1])
             [] p = "printi" -> Print(x[1])
             [] p = "printb" -> Print(x[1])
             [] p = "list3" -> Print(List(x))
             \* a map literal whose first and last pair spell the same key: every pair is evaluated, in order; the last wins
             [] p = "map3" -> Let("mm", [k |-> "map", kt |-> "str", vt |-> "int", braces |-> TRUE,
                                         kvs |-> <<[key |-> S("a"), val |-> x[1]], [key |-> S("b"), val |-> x[2]], [key |-> S("a"), val |-> x[3]]>>])
             [] p \in {"listself", "callself", "sumself"} ->
                  Let("rz", Fn("rz", <<>>, "int",
                      <<If(Bin("<=", V("left"), I(0)), <<Ret(I(1))>>), Modify("left", Bin("-", V("left"), I(1))), Let("here", V("left"))>> \o
                      (CASE p = "listself" -> <<LetT("inner", "[int...]", List(<<V("here"), Call(Self, <<>>), I(9)>>)), Print(V("inner")),
                                                Ret(Bin("+", Bin("*", V("here"), I(10)), MCall(V("inner"), "len", <<>>)))>>
                         [] p = "callself" -> <<Ret(Call(V("f2"), <<V("here"), Call(Self, <<>>)>>))>>
                         [] p = "sumself" -> <<Ret(Bin("-", V("here"), Call(Self, <<>>)))>>)))
             [] p = "opidx" -> Assign(Idx(V("cells2"), Call(V("nexti"), <<>>)), "+", I(5))
             [] p = "opidx2" -> Assign(Idx(V("cells2"), Call(V("nexti"), <<>>)), "=", I(7))
             [] p = "mcall2" -> Print(MCall(V("box"), "add2", x))
             [] p = "call4" -> Print(Call(V("f4"), x))
             [] p = "ifb" -> IfElse(x[1], <<Print(S("then"))>>, <<Print(S("else"))>>)
             [] p = "assign2" -> LetT("pair", "[int...]", List(<<x[1], x[2]>>))
             [] p = "listidx" -> LetT("pair", "[int...]", List(<<x[1], x[2]>>))]
Tail2(ts) == IF ts[1] = "map3" THEN <<Print(Idx(V("mm"), S("a"))), Print(Idx(V("mm"), S("b"))), Print(MCall(V("mm"), "len", <<>>))>>
             ELSE IF ts[1] = "listidx" THEN <<Print(Idx(V("pair"), Parse(ts, 1).ix))>>
             ELSE IF ts[1] \in {"listself", "callself", "sumself"} THEN <<Print(Call(V("rz"), <<>>)), Print(V("left"))>>
             ELSE IF ts[1] \in {"opidx", "opidx2"} THEN <<Print(V("cells2")), Print(V("ni")), Assign(Idx(V("cells2"), Call(V("nexti"), <<>>)), "-", I(1)), Print(V("cells2")), Print(V("ni"))>>
             ELSE IF ts[1] = "assign2" THEN <<Print(V("pair"))>> ELSE <<>>

Prologue ==
    <<Let("cnt", I(1000)), Let("left", I(3)), Let("zz", I(0)),
      Let("ls", Fn("ls", <<P("n", "int")>>, "str", <<Print(V("n")), Ret(S("ab"))>>)),
      LetT("cells", "[int...]", List(<<I(500)>>)), Let("z0", I(0)), LetT("bcells", "[bool...]", List(<<B(TRUE), B(FALSE)>>)),
      Let("put", Fn("put", <<>>, "int", <<Print(S("put")), Let("k0", I(0)), Assign(Idx(V("cells"), V("k0")), "+", I(1)), Ret(Idx(V("cells"), V("k0")))>>)),
      [k |-> "class", n |-> "Box", export |-> FALSE, fields |-> <<[n |-> "n", ty |-> "int"], [n |-> "on", ty |-> "bool"]>>,
       ctor |-> <<[ps |-> <<>>, b |-> <<Assign(Fld(Self, "n"), "=", I(700)), Assign(Fld(Self, "on"), "=", B(FALSE))>>]>>,
       methods |-> <<[n |-> "bump", ps |-> <<>>, rt |-> "int", b |-> <<Print(S("fbump")), Assign(Fld(Self, "n"), "+", I(1)), Ret(Fld(Self, "n"))>>],
                     [n |-> "noisy", ps |-> <<>>, rt |-> "bool", b |-> <<Print(S("noisy")), Ret(B(TRUE))>>],
                     [n |-> "orself", ps |-> <<P("a", "bool")>>, rt |-> "bool", b |-> <<Ret(Bin("||", V("a"), MCall(Self, "noisy", <<>>)))>>],
                     [n |-> "andself", ps |-> <<P("a", "bool")>>, rt |-> "bool", b |-> <<Ret(Bin("&&", V("a"), MCall(Self, "noisy", <<>>)))>>],
                     [n |-> "add2", ps |-> <<P("a", "int"), P("b", "int")>>, rt |-> "int",
                      b |-> <<Print(S("add2")), Ret(Bin("-", Bin("*", V("a"), I(3)), V("b")))>>]>>],
      Let("box", New("Box", <<>>)),
      LetT("cells2", "[int...]", List(<<I(10), I(20), I(30)>>)), Let("ni", I(0)),
      Let("nexti", Fn("nexti", <<>>, "int", <<Print(S("nexti")), Modify("ni", Bin("+", V("ni"), I(1))), Ret(Bin("-", V("ni"), I(1)))>>)),

      Let("mkl", Fn("mkl", <<P("n", "int")>>, "[int...]", <<Print(Bin("+", S("mkl"), V("n"))), LetT("r", "[int...]", List(<<I(40), I(41)>>)), Ret(V("r"))>>)),
      LetT("cur", "[int...]", List(<<I(1), I(2)>>)), LetT("alt", "[int...]", List(<<I(7), I(8)>>)),
      Let("swp", Fn("swp", <<>>, "int", <<Print(S("swp")), Modify("cur", V("alt")), Ret(I(0))>>)),
      Let("bump", Fn("bump", <<>>, "int", <<Print(S("bump")), Modify("cnt", Bin("+", V("cnt"), I(1))), Ret(V("cnt"))>>)),
      Let("lg", Fn("lg", <<P("n", "int")>>, "int", <<Print(V("n")), Ret(V("n"))>>)),
      Let("lb", Fn("lb", <<P("n", "int"), P("b", "bool")>>, "bool", <<Print(V("n")), Ret(V("b"))>>)),
      Let("ix", Fn("ix", <<P("n", "int"), P("r", "int")>>, "int", <<Print(V("n")), Ret(V("r"))>>)),
      Let("op", Fn("op", <<P("n", "int")>>, "int?", <<Print(V("n")), Ret(V("n"))>>)),
      Let("on", Fn("on", <<P("n", "int")>>, "int?", <<Print(V("n")), Ret(Nil)>>)),
      Let("f2", Fn("f2", <<P("a", "int"), P("b", "int")>>, "int",
                   <<Print(S("f2")), Ret(Bin("-", Bin("*", V("a"), I(3)), V("b")))>>)),
      Let("f3", Fn("f3", <<P("a", "int"), P("b", "int"), P("c", "int")>>, "int",
                   <<Print(S("f3")), Ret(Bin("+", Bin("-", Bin("*", V("a"), I(5)), Bin("*", V("b"), I(2))), V("c")))>>)),
      Let("f4", Fn("f4", <<P("a", "int"), P("b", "int"), P("c", "int"), P("d", "int")>>, "int",
                   <<Print(S("f4")), Ret(Bin("+", Bin("-", Bin("*", V("a"), I(7)), Bin("*", V("b"), I(5))), Bin("-", Bin("*", V("c"), I(3)), V("d"))))>>)),
      Let("down", Fn("down", <<P("n", "int")>>, "int",
                     <<Print(Bin("+", S("d"), V("n"))),
                       If(Bin("<=", V("n"), I(0)), <<Ret(I(0))>>),
                       Ret(Bin("+", Call(Self, <<Bin("-", V("n"), I(1))>>), Call(V("lg"), <<Bin("+", I(100), V("n"))>>)))>>))>>

Prog(ts) == [body |-> Prologue \o <<Print(S("S")), Parse(ts, 1).e>> \o Tail2(ts) \o <<Print(S("E"))>>]

EmitCase == (pend = <<>> /\ toks # <<>>) => PrintT("CASE " \o ToJson([toks |-> toks, prog |-> Prog(toks)]))
=============================================================================
