-------------------------------- MODULE MSVM --------------------------------
(* The MScript bytecode machine (bytecode/src/function.rs Function::run and      *)
(* bytecode/src/instruction.rs), in *shape* mode: instruction pointer, the block *)
(* frames this activation has pushed on the shared frame stack, and the  *)
(* operand-stack depth as an        *)
(* interval [lo, hi] (an instruction whose result count depends on an unknown    *)
(* callee widens the interval; it is never guessed).  One successor per          *)
(* InstructionExitState; branching opcodes have one successor per outcome.        *)
(*                                                                               *)
(* The code is not a CONSTANT: it is a dump written by the real compiler /        *)
(* loader (hook H4), read with ndJsonDeserialize, so the machine below explores  *)
(* the bytecode the implementation actually produced - on every path.            *)
EXTENDS Integers, Sequences, FiniteSets, TLC, Json, IOUtils

Funcs == ndJsonDeserialize(IOEnv.DUMP)
   \* sequence of [file, origin, name, code : Seq([id, op, args : Seq(STRING)])]

MaxFrames == 24      \* DepthBounded: more block frames than this = frames accumulate
MaxOperands == 48

-----------------------------------------------------------------------------
(* decimal integers in instruction arguments *)
Digit(c) == CASE c = "0" -> 0 [] c = "1" -> 1 [] c = "2" -> 2 [] c = "3" -> 3 [] c = "4" -> 4
              [] c = "5" -> 5 [] c = "6" -> 6 [] c = "7" -> 7 [] c = "8" -> 8 [] c = "9" -> 9
              [] OTHER -> -1
IsNatStr(s) == Len(s) \in 1..8 /\ \A i \in 1..Len(s) : Digit(SubSeq(s, i, i)) >= 0
RECURSIVE NatVal(_, _)
NatVal(s, n) == IF n = 0 THEN 0 ELSE NatVal(s, n - 1) * 10 + Digit(SubSeq(s, n, n))
IsIntStr(s) == IF Len(s) > 1 /\ SubSeq(s, 1, 1) = "-" THEN IsNatStr(SubSeq(s, 2, Len(s))) ELSE IsNatStr(s)
IntVal(s) == IF SubSeq(s, 1, 1) = "-" THEN 0 - NatVal(SubSeq(s, 2, Len(s)), Len(s) - 1) ELSE NatVal(s, Len(s))

NoInt == 99999999
ArgInt(ins, k) == IF Len(ins.args) >= k /\ IsIntStr(ins.args[k]) THEN IntVal(ins.args[k]) ELSE NoInt

Decode(ins) == [op |-> ins.op, n |-> Len(ins.args), i1 |-> ArgInt(ins, 1), i2 |-> ArgInt(ins, 2),
                i3 |-> ArgInt(ins, 3),
                a1 |-> IF Len(ins.args) >= 1 THEN ins.args[1] ELSE ""]

(* evaluated once by TLC (constant-level, zero arity) *)
Prog == [fi \in 1..Len(Funcs) |-> [k \in 1..Len(Funcs[fi].code) |-> Decode(Funcs[fi].code[k])]]
CodeLen(fi) == Len(Funcs[fi].code)
IsModuleFn(fi) == Funcs[fi].name = "__module__"

(* Interprocedural layer (second pass of ExploreVM).  The first pass records, per function, *)
(* the operand-depth interval of every state in which the activation ends (`ret`, or falling *)
(* off the end = no value); the harness copies those records into the dump as field `rets`  *)
(* and the second pass reads them here.  A caller's `store` / `bin_op` after a call needs    *)
(* exactly one value, a statement call none: a function whose paths certainly end with a    *)
(* value on one path and certainly without on another breaks the operand shape at whatever   *)
(* call site reaches it (ReturnArityUniform).  `call_self` is the one call whose callee is    *)
(* known statically; its result count is the function's own summary (paths that end with the  *)
(* result of another call are no evidence either way: least fixed point).                    *)
Rets(fi) == IF "rets" \in DOMAIN Funcs[fi] THEN Funcs[fi].rets ELSE <<>>
Certain0(fi) == \E k \in 1..Len(Rets(fi)) : Rets(fi)[k].hi = 0
Certain1(fi) == \E k \in 1..Len(Rets(fi)) : Rets(fi)[k].lo >= 1
SelfLo(fi) == IF Certain1(fi) /\ ~Certain0(fi) THEN 1 ELSE 0
SelfHi(fi) == IF Certain0(fi) /\ ~Certain1(fi) THEN 0 ELSE 1

-----------------------------------------------------------------------------
(* abstract state of one activation *)
(* `special_scopes` (function.rs) is pushed by every PushScope and popped only by `done`, never *)
(* by jmp_pop, so it is always >= the number of open block frames; `done` on an open block    *)
(* frame therefore always pops.  It carries no further information and is not a variable.     *)
Entry == [ip |-> 0, fr |-> <<>>, lo |-> 0, hi |-> 0, st |-> "run"]

At(fi, s) == Prog[fi][s.ip + 1]

Push(s, k)   == [s EXCEPT !.lo = @ + k, !.hi = @ + k]
Drop(s, k)   == [s EXCEPT !.lo = IF @ >= k THEN @ - k ELSE 0, !.hi = IF @ >= k THEN @ - k ELSE 0]
SetDepth(s, a, b) == [s EXCEPT !.lo = a, !.hi = b]
Adv(s) == [s EXCEPT !.ip = @ + 1]
Goto(s, off) == [s EXCEPT !.ip = @ + off]

(* operand preconditions: alarm only when the interval proves the shape wrong *)
AtLeast(s, k) == s.hi >= k
Exactly(s, k) == s.lo <= k /\ k <= s.hi
AtMost(s, k)  == s.lo <= k

VecOpKind(a) == IF Len(a) >= 1 /\ SubSeq(a, 1, 1) = "+" THEN "push"
                ELSE IF Len(a) >= 2 /\ SubSeq(a, 1, 1) = "[" THEN "index"
                ELSE a

(* OperandShape(op): what each instruction requires of the operand stack *)
ShapeOk(fi, s) ==
    LET i == At(fi, s) IN
    CASE i.op \in {"neg", "not", "unwrap", "unwrap_into", "split_lookup_store", "jmp_not_nil",
                   "if_stmt", "while_loop", "call_object", "map_op", "fast_map_insert"} -> AtLeast(s, 1)
      [] i.op \in {"store", "store_fast", "store_object", "export_special", "assert", "lookup",
                   "store_skip"} -> Exactly(s, 1)
      [] i.op \in {"equ", "neq", "fast_rev2", "mutate"} -> Exactly(s, 2)
      [] i.op \in {"bin_op", "ptr_mut"} -> AtLeast(s, 2)
      [] i.op = "bin_op_assign" -> IF i.n >= 2 THEN AtLeast(s, 1) ELSE AtLeast(s, 2)
      [] i.op = "vec_op" -> CASE VecOpKind(i.a1) = "push" -> Exactly(s, 1)
                              [] VecOpKind(i.a1) = "index" -> AtLeast(s, 1)
                              [] VecOpKind(i.a1) = "reverse" -> AtLeast(s, 1)
                              [] VecOpKind(i.a1) = "mut" -> Exactly(s, 2)
                              [] OTHER -> FALSE
      [] i.op = "call" -> IF i.n = 0 THEN AtLeast(s, 1) ELSE TRUE
      [] i.op = "ret" -> AtMost(s, 1)
      [] i.op = "ret_mod" -> Exactly(s, 0)
      [] i.op = "printn" -> IF i.a1 = "*" THEN TRUE ELSE i.i1 # NoInt /\ AtLeast(s, i.i1 + 1)
      [] OTHER -> TRUE

KnownOps == {"while_loop", "pop", "bin_op", "vec_op", "make_bool", "make_str", "make_bigint", "make_int",
             "make_float", "make_byte", "make_function", "make_object", "make_vector", "void", "breakpoint",
             "ret", "printn", "call", "call_object", "stack_size", "store", "store_object", "load",
             "load_fast", "if_stmt", "jmp", "equ", "arg", "mutate", "load_callback", "call_lib", "done",
             "else_stmt", "neg", "neq", "not", "call_self", "store_skip", "fast_rev2", "jmp_pop",
             "store_fast", "delete_name_scoped", "delete_name_reference_scoped", "ptr_mut", "assert",
             "reserve_primitive", "lookup", "ld_self", "export_name", "export_special", "load_self_export",
             "unwrap_into", "unwrap", "jmp_not_nil", "bin_op_assign", "ret_mod", "module_entry",
             "split_lookup_store", "make_map", "fast_map_insert", "map_op", "stack_dump"}

InRange(fi, t) == 0 <= t /\ t < CodeLen(fi)

(* the jump targets an instruction can take (relative offsets, Goto semantics) *)
JumpTargets(fi, s) ==
    LET i == At(fi, s) IN
    CASE i.op \in {"if_stmt", "while_loop", "jmp", "jmp_pop", "jmp_not_nil"} -> {s.ip + i.i1}
      [] i.op = "store_skip" -> {s.ip + i.i3}
      [] OTHER -> {}

JumpArgOk(fi, s) ==
    LET i == At(fi, s) IN
    CASE i.op \in {"if_stmt", "while_loop", "jmp", "jmp_pop", "jmp_not_nil"} -> i.i1 # NoInt
      [] i.op = "store_skip" -> i.i3 # NoInt /\ i.i3 >= 0 /\ i.i2 \in {0, 1}
      [] OTHER -> TRUE

PopCount(i) == IF i.n >= 2 THEN i.i2 ELSE 1

(* Else frames take their limit from the `jmp` that precedes the `else` *)
ElseLimit(fi, s) ==
    IF s.ip >= 1 /\ Prog[fi][s.ip].op = "jmp" /\ Prog[fi][s.ip].i1 # NoInt
    THEN (s.ip - 1) + Prog[fi][s.ip].i1 ELSE -1

-----------------------------------------------------------------------------
(* The structural checks of C09, evaluated on the state *before* the instruction *)
(* at s.ip runs.  Returns the set of names of violated checks.                   *)
Violations(fi, s) ==
    IF s.st # "run" THEN {}
    ELSE IF s.ip = CodeLen(fi)
    THEN (IF Len(s.fr) # 0 THEN {"FallsOffEndWithOpenFrames"} ELSE {})
    ELSE LET i == At(fi, s) IN
      (IF i.op \notin KnownOps THEN {"UnknownOrNopInstruction"} ELSE {})
      \cup (IF s = Entry /\ Certain0(fi) /\ Certain1(fi) THEN {"ReturnArityUniform"} ELSE {})
      \cup (IF ~JumpArgOk(fi, s) THEN {"JumpArgument"} ELSE {})
      \cup (IF JumpArgOk(fi, s) /\ \E t \in JumpTargets(fi, s) : ~InRange(fi, t) THEN {"JumpInRange"} ELSE {})
      \cup (IF ~ShapeOk(fi, s) THEN {"OperandShape"} ELSE {})
      \cup (IF i.op = "jmp_pop" /\ (PopCount(i) = NoInt \/ PopCount(i) < 0 \/ PopCount(i) > Len(s.fr))
               THEN {"PopsOnlyBlockFrames"} ELSE {})
      \cup (IF i.op = "done" /\ (Len(s.fr) = 0 \/ s.fr[Len(s.fr)].k \notin {"If", "Else"})
               THEN {"DonePopsInnermostIfElse"} ELSE {})
      \cup (IF i.op = "else_stmt" /\ ElseLimit(fi, s) = -1 THEN {"ElseWithoutJmp"} ELSE {})
      \cup (IF \E k \in 1..Len(s.fr) : ~(s.fr[k].at < s.ip /\ s.ip < s.fr[k].lim) THEN {"FrameWithinRegion"} ELSE {})
      \cup (IF Len(s.fr) > MaxFrames \/ s.hi > MaxOperands THEN {"DepthBounded"} ELSE {})
      \cup (IF i.op = "ret_mod" /\ Len(s.fr) # 0 THEN {"ModuleExitsWithEmptyStack"} ELSE {})

-----------------------------------------------------------------------------
PushFrame(s, kind, lim) == [s EXCEPT !.fr = Append(@, [k |-> kind, at |-> s.ip, lim |-> lim])]
PopFrames(s, n) == [s EXCEPT !.fr = SubSeq(@, 1, Len(@) - n)]

(* an instruction that ran successfully proves a lower bound on the depth *)
MinNeed(i) ==
    CASE i.op \in {"neg", "not", "unwrap", "unwrap_into", "split_lookup_store", "jmp_not_nil",
                   "map_op", "fast_map_insert"} -> 1
      [] i.op = "bin_op_assign" -> IF i.n >= 2 THEN 1 ELSE 2
      [] i.op \in {"fast_rev2", "ptr_mut"} -> 2
      [] i.op = "vec_op" -> IF VecOpKind(i.a1) \in {"index", "reverse"} THEN 1 ELSE 0
      [] OTHER -> 0
Need(s, k) == [s EXCEPT !.lo = IF @ < k THEN k ELSE @]

(* successor states of a state that passed every check *)
Succ(fi, s0) ==
    IF s0.st # "run" THEN {}
    ELSE IF s0.ip = CodeLen(fi) THEN {[s0 EXCEPT !.st = "end"]}
    ELSE LET i == At(fi, s0)
             s == Need(s0, MinNeed(i)) IN
    CASE i.op \in {"make_bool", "make_str", "make_bigint", "make_int", "make_float", "make_byte",
                   "make_function", "make_object", "make_map", "load", "load_fast", "load_callback",
                   "arg", "stack_size", "reserve_primitive", "delete_name_reference_scoped", "ld_self",
                   "load_self_export"} -> {Adv(Push(s, 1))}
      [] i.op = "make_vector" -> {IF i.n = 0 THEN Adv(SetDepth(s, 1, 1)) ELSE Adv(Push(s, 1))}
      [] i.op = "pop" -> {Adv(Drop(s, 1))}
      [] i.op = "void" -> {Adv(SetDepth(s, 0, 0))}
      [] i.op \in {"neg", "not", "unwrap", "unwrap_into", "split_lookup_store", "export_name",
                   "delete_name_scoped", "breakpoint", "printn", "fast_rev2", "map_op", "stack_dump"} -> {Adv(s)}
      [] i.op = "bin_op" -> {Adv(SetDepth(s, 1, 1))}
      [] i.op = "bin_op_assign" -> {IF i.n >= 2 THEN Adv(s) ELSE Adv(Drop(s, 1))}
      [] i.op = "ptr_mut" -> {Adv(Drop(s, 2))}
      [] i.op = "fast_map_insert" -> {Adv(Drop(s, 1))}
      [] i.op = "vec_op" -> {CASE VecOpKind(i.a1) = "push" -> Adv(SetDepth(s, 0, 0))
                               [] VecOpKind(i.a1) = "mut" -> Adv(SetDepth(s, 1, 1))
                               [] OTHER -> Adv(s)}
      [] i.op \in {"store", "store_fast", "store_object", "export_special", "assert"} -> {Adv(SetDepth(s, 0, 0))}
      [] i.op = "lookup" -> {Adv(SetDepth(s, 1, 1))}
      [] i.op \in {"equ", "neq", "mutate"} -> {Adv(SetDepth(s, 1, 1))}
      [] i.op \in {"call", "call_object", "call_lib"} -> {Adv(SetDepth(s, 0, 1))}
      [] i.op = "call_self" -> {Adv(SetDepth(s, SelfLo(fi), SelfHi(fi)))}
      [] i.op = "module_entry" -> {Adv(SetDepth(s, 1, 1))}
      [] i.op = "ret" -> {[PopFrames(s, Len(s.fr)) EXCEPT !.st = "ret"]}
      [] i.op = "ret_mod" -> {[PopFrames(s, Len(s.fr)) EXCEPT !.st = "ret"]}
      [] i.op = "if_stmt" -> {Goto(SetDepth(s, 0, 0), i.i1),
                              Adv(PushFrame(SetDepth(s, 0, 0), "If", s.ip + i.i1))}
      [] i.op = "while_loop" -> {Goto(SetDepth(s, 0, 0), i.i1),
                                 Adv(PushFrame(SetDepth(s, 0, 0), "While", s.ip + i.i1))}
      [] i.op = "else_stmt" -> {Adv(PushFrame(s, "Else", ElseLimit(fi, s)))}
      [] i.op = "jmp" -> {Goto(s, i.i1)}
      [] i.op = "jmp_pop" -> {Goto(PopFrames(s, PopCount(i)), i.i1)}
      [] i.op = "done" -> {Adv(PopFrames(s, 1))}
      [] i.op = "store_skip" -> {Goto(SetDepth(s, 1, 1), i.i3), Adv(SetDepth(s, 0, 0))}
      [] i.op = "jmp_not_nil" -> {Goto(s, i.i1), Adv(Drop(s, 1))}
      [] OTHER -> {}
=============================================================================
