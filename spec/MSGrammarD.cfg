CONSTANT Budget = 6
CONSTANT UseVocab = FALSE
CONSTANT MaxEdits = 0
INIT InitD
NEXT NextD
INVARIANT EmitDerived
