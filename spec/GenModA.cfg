CONSTANT MaxMods = 3
CONSTANT MinMods = 2
CONSTANT Spells <- OnePlain
CONSTANT Places <- AllPlaces
CONSTANT Agains <- SomeAgain
CONSTANT Layouts <- NoSub
INIT Init
NEXT Next
INVARIANT EmitCase
