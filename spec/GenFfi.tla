-------------------------------- MODULE GenFfi --------------------------------
(* all argument vectors up to MaxLen over the value table x every call kind *)
EXTENDS MSFfi
CONSTANTS MaxLen, ValIdx
VARIABLES args, call, call2, args2, spell, where, done
(* how the library is named: an absolute path, or a relative name that contains a backslash (an ordinary
   file-name character on this platform; the name must reach the loader unchanged) *)
\* searchpath: the library is named by its bare file name and found by the dynamic loader on its search path (LD_LIBRARY_PATH),
\* not relative to the working directory
Spells == {"plain", "backslash", "searchpath"}
(* where the first foreign call runs: in the module function, inside a bytecode function called from it, or as the last
   instruction before `ret` of such a function (its result / error then crosses a bytecode call boundary); what the program
   prints does not depend on it *)
\* fn_args / tail_args: the bytecode function that makes the foreign call was itself called with two arguments (which it never
\* touches): the foreign function still receives the operand stack of the call site - the empty slice when nothing was pushed
Wheres == {"module", "fn", "tail", "module_tail", "fn_args", "tail_args"}
Init == args = <<>> /\ call = "" /\ call2 = "" /\ args2 = <<>> /\ spell = "plain" /\ where = "module" /\ done = FALSE
Next == \/ (~done /\ Len(args) < MaxLen /\ \E v \in ValIdx : args' = Append(args, v) /\ UNCHANGED <<call, call2, args2, spell, where, done>>)
        \/ (~done /\ \E f \in Calls, sp \in Spells, w \in Wheres : call' = f /\ spell' = sp /\ where' = w /\ done' = TRUE /\ UNCHANGED <<args, call2, args2>>)
        \/ (~done /\ Len(args) <= 2 /\ \E f \in Calls \ {"probe_fail", "missing_symbol", "missing_library"}, f2 \in Calls, a2 \in {<<>>, <<6>>} :
              call' = f /\ call2' = f2 /\ args2' = a2 /\ done' = TRUE /\ UNCHANGED <<args, spell, where>>)
(* the property on the specification: after a failed call nothing more is printed *)
NoOutputAfterFailure == done => LET e == Expected([args |-> args, call |-> call, call2 |-> call2, args2 |-> args2, where |-> where]) IN
                                 e.status = "failed" => (\A k \in 1..Len(e.out) : e.out[k] # "after")
EmitCase == done => PrintT("CASE " \o ToJson([args |-> args, call |-> call, call2 |-> call2, args2 |-> args2, spell |-> spell, where |-> where,
                                               vals |-> [k \in 1..Len(args) |-> Vals[args[k]]], vals2 |-> [k \in 1..Len(args2) |-> Vals[args2[k]]]]))
=============================================================================
