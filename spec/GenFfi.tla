-------------------------------- MODULE GenFfi --------------------------------
(* all argument vectors up to MaxLen over the value table x every call kind *)
EXTENDS MSFfi
CONSTANTS MaxLen, ValIdx
VARIABLES args, call, call2, args2, spell, done
(* how the library is named: an absolute path, or a relative name that contains a backslash (an ordinary
   file-name character on this platform; the name must reach the loader unchanged) *)
Spells == {"plain", "backslash"}
Init == args = <<>> /\ call = "" /\ call2 = "" /\ args2 = <<>> /\ spell = "plain" /\ done = FALSE
Next == \/ (~done /\ Len(args) < MaxLen /\ \E v \in ValIdx : args' = Append(args, v) /\ UNCHANGED <<call, call2, args2, spell, done>>)
        \/ (~done /\ \E f \in Calls, sp \in Spells : call' = f /\ spell' = sp /\ done' = TRUE /\ UNCHANGED <<args, call2, args2>>)
        \/ (~done /\ Len(args) <= 2 /\ \E f \in Calls \ {"probe_fail", "missing_symbol", "missing_library"}, f2 \in Calls, a2 \in {<<>>, <<6>>} :
              call' = f /\ call2' = f2 /\ args2' = a2 /\ done' = TRUE /\ UNCHANGED <<args, spell>>)
(* the property on the specification: after a failed call nothing more is printed *)
NoOutputAfterFailure == done => LET e == Expected([args |-> args, call |-> call, call2 |-> call2, args2 |-> args2]) IN
                                 e.status = "failed" => (\A k \in 1..Len(e.out) : e.out[k] # "after")
EmitCase == done => PrintT("CASE " \o ToJson([args |-> args, call |-> call, call2 |-> call2, args2 |-> args2, spell |-> spell,
                                               vals |-> [k \in 1..Len(args) |-> Vals[args[k]]], vals2 |-> [k \in 1..Len(args2) |-> Vals[args2[k]]]]))
=============================================================================
