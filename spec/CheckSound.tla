------------------------------ MODULE CheckSound ------------------------------
(* Judge for C02 (soundness is one-directional: only programs the compiler accepted *)
(* are judged).  (i) a run-time failure must belong to the dynamic failure classes   *)
(* the language defines; (ii) a printed non-nil value must have a kind inhabiting    *)
(* the static type the compiler reported with `typeof`.                              *)
EXTENDS Integers, Sequences, TLC, Json, IOUtils
Cases == ndJsonDeserialize(IOEnv.CASES)
VARIABLE i
Init == i \in 1..Len(Cases)
Next == UNCHANGED i

AllowedFailures == {"assert", "nil", "index", "key", "zerodiv", "overflow", "conversion", "range", "stack"}
Ends(s, suf) == Len(s) >= Len(suf) /\ SubSeq(s, Len(s) - Len(suf) + 1, Len(s)) = suf
Starts(s, pre) == Len(s) >= Len(pre) /\ SubSeq(s, 1, Len(pre)) = pre
RECURSIVE KindOk(_, _)
KindOk(ty, k) ==
    IF k = "Nil" THEN TRUE
    ELSE IF Ends(ty, "?") THEN
         LET base == SubSeq(ty, 1, Len(ty) - 1) IN
         KindOk(base, k) \/ (Starts(k, "Optional<") /\ KindOk(base, SubSeq(k, 10, Len(k) - 1)))
    ELSE CASE ty = "int" -> k = "Int" [] ty = "bigint" -> k = "BigInt" [] ty = "float" -> k = "Float" [] ty = "byte" -> k = "Byte"
           [] ty = "bool" -> k = "Bool" [] ty = "str" -> k = "Str"
           [] Starts(ty, "[") -> Starts(k, "Vector<")
           [] Starts(ty, "map[") -> k = "Map"
           [] Starts(ty, "fn(") -> k \in {"Function", "BuiltInFunction"}
           [] OTHER -> k = "Object"          \* a class name
Judge ==
    LET c == Cases[i] IN
    /\ (c.status = "fail" => c.fclass \in AllowedFailures)
         \/ PrintT("DYNTYPE " \o ToJson([id |-> c.id, fclass |-> c.fclass]))
    /\ ((c.status = "ok" /\ c.typeof # "") => KindOk(c.typeof, c.kind))       \* composed programs carry no typeof probe
         \/ PrintT("KIND " \o ToJson([id |-> c.id, typeof |-> c.typeof, kind |-> c.kind]))
=============================================================================
