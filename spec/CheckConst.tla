------------------------------ MODULE CheckConst ------------------------------
(* Judge for C10: a write that the constness machine disables (GenConst!WriteEnabled *)
(* is FALSE for a const binding) must be rejected at compile time with a diagnostic   *)
(* and nothing may run; the twin without `const` must behave as MSLang prescribes     *)
(* (the written value is observed).                                                   *)
EXTENDS MSLang, Json, IOUtils
Cases == ndJsonDeserialize(IOEnv.CASES)
VARIABLE i
Init == i \in 1..Len(Cases)
Next == UNCHANGED i
RunAny(p) == IF "mods" \in DOMAIN p THEN RunProject(p) ELSE Run(p)
ConstOk(c) == c.legal \/ c.const_enabled \/ (c.cobs.rejected /\ c.cobs.diag /\ ~c.cobs.started)
(* a form that denotes a same-named local (GenConst!Legal) is no write to the const: the program with `const` is accepted and *)
(* behaves like its twin - in particular the const still shows its initializer                                              *)
LegalOk(c) == ~c.legal \/ (LET r == RunAny(c.twin) IN
                            r.status \in {"fuel", "type"} \/ (r.status = "ok" /\ c.cobs.exit = 0 /\ ~c.cobs.rejected /\ c.cobs.out = r.out))
TwinOk(c) == ~c.has_twin \/ (LET r == RunAny(c.twin) IN
                             r.status \in {"fuel", "type"} \/ (r.status = "ok" /\ c.tobs.exit = 0 /\ c.tobs.out = r.out))
Judge == LET c == Cases[i] IN
         /\ ConstOk(c) \/ PrintT("CONSTWRITE " \o ToJson([id |-> c.id]))
         /\ LegalOk(c) \/ PrintT("LEGAL " \o ToJson([id |-> c.id, expected |-> RunAny(c.twin).out, status |-> RunAny(c.twin).status]))
         /\ TwinOk(c) \/ PrintT("TWIN " \o ToJson([id |-> c.id, expected |-> RunAny(c.twin).out, status |-> RunAny(c.twin).status]))
=============================================================================
