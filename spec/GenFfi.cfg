CONSTANT MaxLen = 3
CONSTANT ValIdx = {1, 2, 3, 4, 5, 6}
INIT Init
NEXT Next
INVARIANT NoOutputAfterFailure
INVARIANT EmitCase
