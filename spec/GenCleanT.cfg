CONSTANTS
  TopNames <- TN
  ChildNames <- CN
  MaxEntries = 3
INIT Init
NEXT Next
INVARIANT C20
INVARIANT EmitCase
