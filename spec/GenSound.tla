------------------------------- MODULE GenSound -------------------------------
(* Generator for C02: a type-directed catalogue of expressions in typed positions.  *)
(* Every case is `r = <expr>; print typeof r; print r`: if the compiler accepts it,  *)
(* it must run without a dynamic *type* failure and the printed value must have a    *)
(* kind that inhabits the static type the compiler itself reports.                   *)
EXTENDS Integers, Sequences, TLC, Json

Kinds6 == {"int", "bigint", "float", "byte", "bool", "str"}
ValA(k) == CASE k = "int" -> "6" [] k = "bigint" -> "B6" [] k = "float" -> "6.5" [] k = "byte" -> "0b110" [] k = "bool" -> "true" [] k = "str" -> "\"ab\""
ValB(k) == CASE k = "int" -> "3" [] k = "bigint" -> "B3" [] k = "float" -> "2.5" [] k = "byte" -> "0b11" [] k = "bool" -> "false" [] k = "str" -> "\"c\""
BinOps == {"+", "-", "*", "/", "%", "<<", ">>", "&", "|", "xor", "<", "<=", ">", ">=", "==", "!=", "&&", "||", "^"}
OpCases == {[id |-> "op " \o ka \o " " \o op \o " " \o kb, setup |-> <<"a = " \o ValA(ka), "b = " \o ValB(kb)>>, e |-> "a " \o op \o " b"] :
              op \in BinOps, ka \in Kinds6, kb \in Kinds6}
(* concatenation with a string that is empty at run time: the result is still a str *)
EmptyCases == {[id |-> "op " \o ka \o " + empty str", setup |-> <<"a = " \o ValA(ka), "b = \"\"">>, e |-> "a + b"] : ka \in Kinds6}
              \cup {[id |-> "op empty str + " \o ka, setup |-> <<"a = " \o ValA(ka), "b = \"\"">>, e |-> "b + a"] : ka \in Kinds6}
              \cup {[id |-> "op (" \o ka \o " + empty str) + int", setup |-> <<"a = " \o ValA(ka), "b = \"\"">>, e |-> "(a + b) + 1"] : ka \in Kinds6}
              \cup {[id |-> "call (" \o ka \o " + empty str).len()", setup |-> <<"a = " \o ValA(ka), "b = \"\"">>, e |-> "(a + b).len()"] : ka \in Kinds6}
(* op-assignment: the target keeps its static type, so the stored result must have that kind *)
OpAssignCases == {[id |-> "opassign " \o ka \o " " \o op \o "= " \o kb, setup |-> <<"a = " \o ValA(ka), "b = " \o ValB(kb), "a " \o op \o "= b">>, e |-> "a"] :
                    op \in {"+", "-", "*", "/", "%"}, ka \in Kinds6, kb \in Kinds6}
(* writes through a chain of constant / run-time brackets, then the slot is read back *)
ChainWrites == {
  [id |-> "chainwrite lm[0][2] =", setup |-> <<"lm[0][2] = \"w\"">>, e |-> "lm[0][2]"],
  [id |-> "chainwrite lm[0][2] +=", setup |-> <<"lm[0][2] += \"w\"">>, e |-> "lm[0][2]"],
  [id |-> "chainwrite lm[z0][z2] =", setup |-> <<"lm[z0][z2] = \"w\"">>, e |-> "lm[0][2]"],
  [id |-> "chainwrite ml[a][1] =", setup |-> <<"ml[\"a\"][1] = 50">>, e |-> "ml[\"a\"][1]"],
  [id |-> "chainwrite ml[a][1] +=", setup |-> <<"ml[\"a\"][1] += 50">>, e |-> "ml[\"a\"]"],
  [id |-> "chainwrite mim[1][0] =", setup |-> <<"mim[1][0] = 50">>, e |-> "mim[1][0]"],
  [id |-> "chainwrite ll[1][0] +=", setup |-> <<"ll[1][0] += 50">>, e |-> "ll[1]"],
  [id |-> "chainwrite ll[1][z0] =", setup |-> <<"ll[1][z0] = 50">>, e |-> "ll[1][0]"]}
UnCases == {[id |-> "un " \o u \o " " \o k, setup |-> <<"a = " \o ValA(k)>>, e |-> u \o "a"] : u \in {"-", "!"}, k \in Kinds6}

Recv == [str |-> "\"abc\"", int |-> "5", bigint |-> "B5", float |-> "2.5", byte |-> "0b101", list |-> "il", map |-> "mp", fnv |-> "fv", clo |-> "cl",
         opt |-> "op1", nilopt |-> "op0", obj |-> "bx", strs |-> "sl", num |-> "\"42\"", lol |-> "ll", imap |-> "mi", fixl |-> "fx",
         \* containers inside containers: a list of int-keyed maps, a map of lists, an int-keyed map of lists
         lom |-> "lm", mol |-> "ml", imol |-> "mim"]
Calls == {
  <<"str", ".len()">>, <<"str", ".substring(z0, z1)">>, <<"str", ".contains(\"a\")">>, <<"str", ".index_of(\"b\")">>, <<"str", ".index_of(\"q\")">>,
  <<"str", ".reverse()">>, <<"str", ".insert(\"x\", z1)">>, <<"str", ".replace(\"a\", \"b\")">>, <<"str", ".delete(z0, z1)">>, <<"str", ".split(z1)">>,
  <<"str", ".chars()">>, <<"str", ".parse_int()">>, <<"num", ".parse_int()">>, <<"num", ".parse_bigint()">>, <<"num", ".parse_float()">>,
  <<"str", ".parse_bool()">>, <<"num", ".parse_byte()">>, <<"num", ".parse_int_radix(10)">>, <<"num", ".parse_bigint_radix(16)">>,
  <<"str", " * z2">>, <<"str", " + z1">>, <<"str", "[z0]">>, <<"str", ".to_str()">>, <<"str", " + fl">>,
  <<"int", ".to_int()">>, <<"int", ".to_bigint()">>, <<"int", ".to_byte()">>, <<"int", ".to_float()">>, <<"int", ".abs()">>, <<"int", ".pow(2)">>,
  <<"int", ".powf(2.0)">>, <<"int", ".sqrt()">>, <<"int", ".to_str()">>,
  <<"bigint", ".to_int()">>, <<"bigint", ".to_bigint()">>, <<"bigint", ".to_byte()">>, <<"bigint", ".to_float()">>, <<"bigint", ".abs()">>, <<"bigint", ".pow(2)">>,
  <<"bigint", ".powf(2.0)">>, <<"bigint", ".sqrt()">>, <<"bigint", ".to_str()">>,
  <<"float", ".to_int()">>, <<"float", ".to_bigint()">>, <<"float", ".to_byte()">>, <<"float", ".to_float()">>, <<"float", ".abs()">>, <<"float", ".pow(2)">>,
  <<"float", ".powf(2.0)">>, <<"float", ".sqrt()">>, <<"float", ".to_str()">>, <<"float", ".floor()">>, <<"float", ".ceil()">>, <<"float", ".round()">>,
  <<"float", ".ipart()">>, <<"float", ".fpart()">>,
  <<"byte", ".to_int()">>, <<"byte", ".to_bigint()">>, <<"byte", ".to_byte()">>, <<"byte", ".to_float()">>, <<"byte", ".abs()">>, <<"byte", ".pow(2)">>,
  <<"byte", ".powf(2.0)">>, <<"byte", ".sqrt()">>, <<"byte", ".to_str()">>, <<"byte", ".to_ascii()">>,
  \* boundary exponents: a result that could be the receiver itself still has the declared kind
  <<"int", ".pow(1)">>, <<"int", ".pow(z1)">>, <<"int", ".pow(z0)">>, <<"byte", ".pow(1)">>, <<"byte", ".pow(z1)">>, <<"byte", ".pow(z0)">>,
  <<"bigint", ".pow(z1)">>, <<"float", ".pow(z1)">>, <<"int", ".powf(1.0)">>, <<"byte", ".powf(1.0)">>, <<"int", ".abs()">>,
  <<"list", ".len()">>, <<"list", ".map(dbl)">>, <<"list", ".filter(big)">>, <<"list", ".remove(z0)">>, <<"list", ".index_of(2)">>, <<"list", ".index_of(9)">>,
  <<"list", ".clone()">>, <<"list", ".join(il)">>, <<"list", "[z0]">>, <<"list", " == il">>, <<"list", " is il">>, <<"lol", "[z0]">>, <<"strs", "[z0]">>,
  <<"strs", ".map(slen)">>, <<"lol", ".len()">>,
  <<"map", ".len()">>, <<"map", ".contains_key(\"a\")">>, <<"map", ".keys()">>, <<"map", ".values()">>, <<"map", ".pairs()">>, <<"map", ".replace(\"a\", 5)">>,
  <<"map", ".replace(\"zz\", 5)">>, <<"map", ".remove(\"a\")">>, <<"map", ".clone()">>, <<"map", "[\"a\"]">>, <<"map", "[\"zz\"]">>,
  <<"fnv", ".is_closure()">>, <<"clo", ".is_closure()">>, <<"fnv", "()">>, <<"clo", "()">>, <<"fnv", "">>, <<"fnv", " is fv">>,
  <<"opt", " == nil">>, <<"opt", " == 4">>, <<"nilopt", " == nil">>, <<"opt", "">>, <<"nilopt", "">>, <<"obj", ".v">>, <<"obj", ".val()">>, <<"obj", ".me()">>,
  <<"obj", " is bx">>, <<"obj", ".w">>, <<"obj", ".ws">>, <<"obj", ".mk(2)">>, <<"obj", ".cb(2)">>, <<"obj", ".cb">>,
  <<"imap", "[1]">>, <<"imap", "[z1]">>, <<"imap", "[2 - 1]">>, <<"imap", "[B1]">>, <<"imap", ".len()">>, <<"imap", ".contains_key(2)">>, <<"imap", ".remove(2)">>,
  <<"fixl", "[0]">>, <<"fixl", "[2]">>, <<"fixl", ".len()">>, <<"fixl", ".reverse()">>, <<"fixl", ".remove(2)">>, <<"fixl", ".index_of(1)">>, <<"fixl", ".map(dbl)">>,
  <<"list", "[fl]">>, <<"list", "[op1]">>, <<"str", "[fl]">>, <<"list", "[z0 + z1]">>, <<"map", "[z0]">>, <<"lol", "[z0][z1]">>,
  \* index chains through nested containers, with constant and with run-time parts: every bracket is an operation of the
  \* container it is applied to (list position or map key), whatever the outermost container is
  <<"lom", "[0][2]">>, <<"lom", "[z0][2]">>, <<"lom", "[0][z2]">>, <<"lom", "[0]">>, <<"mol", "[\"a\"][1]">>, <<"mol", "[\"a\"][z1]">>,
  <<"imol", "[1][0]">>, <<"imol", "[1][z0]">>, <<"imol", "[z1][0]">>, <<"lol", "[1][0]">>, <<"lol", "[1][z0]">>, <<"strs", "[1][0]">>, <<"strs", "[z1][1]">>,
  <<"lom", "[0].len()">>, <<"mol", "[\"a\"].len()">>, <<"lom", "[0].contains_key(2)">> }
CallCases == {[id |-> "call " \o c[1] \o c[2], setup |-> <<>>, e |-> Recv[c[1]] \o c[2]] : c \in Calls}
Prefixed == {[id |-> "pre get op1", setup |-> <<>>, e |-> "get op1"], [id |-> "pre (op1) or 9", setup |-> <<>>, e |-> "(op1) or 9"],
             [id |-> "pre (op0) or 9", setup |-> <<>>, e |-> "(op0) or 9"], [id |-> "pre typeof il", setup |-> <<>>, e |-> "typeof il"],
             [id |-> "pre list mixed", setup |-> <<>>, e |-> "[1, \"a\", 2.5]"], [id |-> "pre list lit", setup |-> <<>>, e |-> "[1, 2]"],
             [id |-> "pre self call", setup |-> <<>>, e |-> "fact(4)"], [id |-> "pre unwrap", setup |-> <<"w: int? = nil">>, e |-> "w ?= op1"],
             \* a local re-typed inside a nested block / a parameter re-typed, then used at its declared type
             [id |-> "pre retype local in block", e |-> "rtf()",
              setup |-> <<"rtf = fn() -> int {", "	tot = 5", "	if z1 == 1 {", "		tot = \"many\"", "	}", "	return tot - 1", "}">>],
             [id |-> "pre retype param in loop", e |-> "rtp(3)",
              setup |-> <<"rtp = fn(n: int) -> int {", "	while n > 100 {", "		n = \"s\"", "	}", "	from 0 to 2 {", "		n = \"t\"", "	}", "	return n * 2", "}">>],
             [id |-> "pre counter reuses local", e |-> "cru(2)",
              setup |-> <<"cru = fn(n: int) -> int {", "	idx = 7", "	from 0 to n, idx {", "		n = n + 0", "	}", "	return idx + n", "}">>]}

Prologue == <<"z0 = 0", "z1 = 1", "z2 = 2", "fl = 1.5", "il: [int...] = [1, 2, 3]", "sl: [str...] = [\"x\", \"yy\"]", "ll: [[int...]...] = [[1], [2, 3]]",
              "mp = map[str, int]{\"a\": 1, \"b\": 2}", "mi = map[int, str]{1: \"a\", 2: \"b\"}", "lm: [map[int, str]...] = [mi]", "ml = map[str, [int...]]{\"a\": il}", "mim = map[int, [int...]]{1: il}", "const fx = [10, 20, \"total\"]", "fv = fn() -> int { return 7 }", "cnt = 0",
              "cl = fn() -> int {", "	modify cnt = cnt + 1", "	return cnt", "}",
              "dbl = fn(q: int) -> int { return q * 2 }", "big = fn(q: int) -> bool { return q > 1 }", "slen = fn(q: str) -> int { return q.len() }",
              "fact = fn(n: int) -> int {", "	if n <= 1 {", "		return 1", "	}", "	return n * self(n - 1)", "}",
              "op1: int? = 4", "op0: int? = nil",
              "class Box {", "	v: int", "	w: str?", "	ws: [int...]", "	cb: fn(int) -> int", "	constructor(self) {", "		self.v = 1", "		self.w = nil", "		self.ws = [5]",
              "		self.cb = fn(q: int) -> int { return q + 1 }", "	}",
              "	fn val(self) -> int {", "		return self.v", "	}", "	fn me(self) -> Self {", "		return self", "	}",
              "	fn mk(self, n: int) -> [int...] {", "		return [n, self.v]", "	}", "}", "bx = Box()">>

(* where the expression is evaluated: at module level, inside a function literal (every name it uses is then a captured *)
(* variable) or inside a method                                                                                         *)
Ctxs == {"module", "closure", "method"}
VARIABLES c, ctx
Init == c \in OpCases \cup EmptyCases \cup OpAssignCases \cup UnCases \cup CallCases \cup Prefixed \cup ChainWrites /\ ctx \in Ctxs
Next == UNCHANGED <<c, ctx>>
Probe(ind) == <<ind \o "r = " \o c.e, ind \o "print typeof r", ind \o "print r">>
Lines == Prologue \o c.setup \o <<"print \"GO\"">> \o
         (CASE ctx = "module" -> Probe("")
            [] ctx = "closure" -> <<"cf = fn() {">> \o Probe("	") \o <<"}", "cf()">>
            [] ctx = "method" -> <<"class Wc {", "	fn go(self) {">> \o Probe("		") \o <<"	}", "}", "wci = Wc()", "wci.go()">>)
EmitCase == PrintT("CASE " \o ToJson([id |-> c.id \o " @" \o ctx, lines |-> Lines]))
=============================================================================
