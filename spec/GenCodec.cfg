CONSTANT MaxLen = 3
INIT Init
NEXT Next
INVARIANT C04_ArgumentsReadBackAsEmitted
INVARIANT C18_TextFormRoundTrips
INVARIANT CanonDecodes
INVARIANT EmitCase
