----------------------------- MODULE TraceClean -----------------------------
(* Trace validation for C20: each record of the observation file holds a tree   *)
(* that was materialised on disk, and what the real `mscript clean` left behind. *)
(* A record is accepted iff MSClean!Clean can take the step from the tree to the *)
(* observed after-state with the observed count.                                 *)
EXTENDS MSClean, Json, IOUtils, SequencesExt

Obs == ndJsonDeserialize(IOEnv.OBS)

VARIABLE i
tvars == <<vars, i>>

TreeOf(entries) ==
    LET P == {entries[k].path : k \in 1..Len(entries)} IN
    [p \in P |-> LET k == CHOOSE k \in 1..Len(entries) : entries[k].path = p IN entries[k].kind]

TraceInit == /\ i \in 1..Len(Obs)
             /\ tree = TreeOf(Obs[i].entries) /\ tree0 = tree
             /\ phase = "building" /\ reported = 0 /\ outside = TRUE /\ root = "dir"

(* the logged after-state is bound to the primed variables of the spec action *)
TraceCleanStep ==
    /\ \E extra \in SUBSET MayRemove(tree) : Clean(extra)
    /\ tree' = TreeOf(Obs[i].after)
    /\ reported' = Obs[i].count
    /\ root' = (IF Obs[i].dir_exists THEN "dir" ELSE "gone")
    /\ Obs[i].exit = 0
    /\ Obs[i].outside_ok
    /\ Obs[i].contents_ok
    /\ i' = i

TraceNext == TraceCleanStep
TraceSpec == TraceInit /\ [][TraceNext]_tvars

Verdict ==
    /\ (phase = "building" /\ ~ENABLED TraceCleanStep) =>
          PrintT("REJECT " \o ToJson([i |-> i, id |-> Obs[i].id,
                  must |-> SetToSeq(MustRemove(tree)), may |-> SetToSeq(MayRemove(tree))]))
    /\ (phase = "cleaned") => PrintT("ACCEPT " \o ToJson([i |-> i, id |-> Obs[i].id]))
=============================================================================
