-------------------------------- MODULE GenMod --------------------------------
(* Generator for C11: import DAGs over N modules (module 1 = entry, module N =    *)
(* the shared counter), an import form and a path spelling per edge, and a        *)
(* placement of every import before or after the importer's first side effect.    *)
(* A state is one complete project description.                                    *)
EXTENDS Ast, TLC, Json, FiniteSets

CONSTANTS MaxMods, MinMods, Spells, Places, Layouts, Agains

(* layout k > 0: the modules k..n live in the sub-directory `sub/` (they are imported as `sub/m` from the top level and as
   `m` from each other; a module in `sub/` cannot import upwards: `..` does not parse); layout 0: one directory *)
NoSub == {0}
AllLayouts == 0..5

Forms == {"mod", "names", "type"}
AllSpells == {"plain", "dotslash"}
AllPlaces == {"early", "late"}
(* a second import of the shared counter module in the same file, after the uses - i.e. after its state has changed: "names" *)
(* (`import count from m`: the name is bound to what the one instance holds at that moment) or "mod" (`import m` again)               *)
NoAgain == {"none"}
SomeAgain == {"names", "mod"}
OnePlain == {"plain"}
OneEarly == {"early"}

VARIABLE pr      \* [n, edges : set of <<i, j>>, form, spell, place : functions on edges, bare : set of modules, lay]
Mods(n) == 1..n
AllEdges(n) == {e \in Mods(n) \X Mods(n) : e[1] < e[2]}
(* every module except the entry has an importer *)
Connected(n, E) == \A j \in 2..n : \E i \in 1..(j - 1) : <<i, j>> \in E

Init == \E n \in MinMods..MaxMods : \E E \in SUBSET AllEdges(n) :
          /\ Connected(n, E)
          /\ \E f \in [E -> Forms], sp \in [E -> Spells], pl \in [E -> Places], bare \in SUBSET (2..(n - 1)), lay \in Layouts \cap (({0} \cup (2..n))), ag \in Agains :
               \* a "bare" module exports nothing: it can only be imported as a whole
               /\ \A e \in E : e[2] \in bare => f[e] \in {"mod", "type"}
               /\ pr = [n |-> n, edges |-> E, form |-> f, spell |-> sp, place |-> pl, bare |-> bare, lay |-> lay, again |-> ag]
Next == UNCHANGED pr

-----------------------------------------------------------------------------
(* the second module's name ends with the third module's name (`xm3` / `m3`): a cache or a table keyed by a suffix or a   *)
(* prefix of the path confuses them                                                                                       *)
MName(k) == IF k = 2 THEN "xm3" ELSE "m" \o ToString(k)
TName(k) == "T" \o ToString(k)
(* every module exports a type alias; a "bare" module exports nothing else *)
TypeExport(k) == [k |-> "alias", n |-> TName(k), ty |-> "int", export |-> TRUE]
IsCounter(k) == k = pr.n
Succs(i) == {j \in Mods(pr.n) : <<i, j>> \in pr.edges}
RECURSIVE Ascending(_, _)
Ascending(Zs, lo) == IF {x \in Zs : x >= lo} = {} THEN <<>>
                     ELSE LET m == CHOOSE x \in Zs : x >= lo /\ \A y \in Zs : y >= lo => x <= y IN <<m>> \o Ascending(Zs, m + 1)

(* a module that imports the shared counter (by name or as a module) also exports `via`, a function that bumps the counter *)
(* through the module's own import binding; its importers call it - from a module that may never have bound the counter      *)
(* itself, or has bound the name to something else                                                                          *)
HasVia(i) == ~IsCounter(i) /\ i \notin pr.bare /\ <<i, pr.n>> \in pr.edges /\ pr.form[<<i, pr.n>>] # "type"
InSub(k) == pr.lay # 0 /\ k >= pr.lay
Path(i, j) == (IF pr.spell[<<i, j>>] = "dotslash" THEN "./" ELSE "") \o (IF InSub(j) /\ ~InSub(i) THEN "sub/" ELSE "") \o MName(j)
ImportOf(i, j) ==
    IF pr.form[<<i, j>>] = "mod" THEN [k |-> "import", form |-> "mod", path |-> Path(i, j), names |-> <<>>]
    ELSE IF pr.form[<<i, j>>] = "type" THEN [k |-> "import", form |-> "type", path |-> Path(i, j), names |-> <<TName(j)>>]
    ELSE [k |-> "import", form |-> "names", path |-> Path(i, j),
          names |-> IF IsCounter(j) THEN (IF pr.again = "names" THEN <<"bump", "cur">> ELSE <<"bump", "cur", "count">>) ELSE <<"val", "peek">> \o (IF HasVia(j) THEN <<"via">> ELSE <<>>)]
(* how module i reaches a member of module j, depending on the import form *)
Member(i, j, name) == IF pr.form[<<i, j>>] = "mod" THEN Fld(V(MName(j)), name) ELSE V(name)

UseOf(i, j) ==
    IF pr.form[<<i, j>>] = "type" THEN
        <<[k |-> "let", n |-> "t" \o ToString(j), ty |-> TName(j), e |-> I(j), mod |-> FALSE, const |-> FALSE, export |-> FALSE],
          Print(V("t" \o ToString(j)))>>
    ELSE IF IsCounter(j) THEN <<Print(Call(Member(i, j, "bump"), <<>>))>>
                              \o (IF pr.again = "names" /\ pr.form[<<i, j>>] = "names" THEN <<>> ELSE <<Print(Member(i, j, "count"))>>)
                              \o <<Print(Call(Member(i, j, "cur"), <<>>))>>
    ELSE IF j \in pr.bare THEN <<>>
    ELSE <<Print(Member(i, j, "val")), Print(Call(Member(i, j, "peek"), <<>>))>>
         \o (IF HasVia(j) THEN <<Print(Call(Member(i, j, "via"), <<>>))>> ELSE <<>>)

(* the second import of the counter module by module i, and a read through it *)
Again(i) ==
    IF pr.again = "none" \/ <<i, pr.n>> \notin pr.edges THEN <<>>
    ELSE IF pr.again = "names"
    THEN <<[k |-> "import", form |-> "names", path |-> Path(i, pr.n), names |-> <<"count">>], Print(V("count"))>>
    ELSE IF pr.form[<<i, pr.n>>] = "mod" THEN <<>>       \* the module is bound already: a second `import m` would re-bind the name
    ELSE <<[k |-> "import", form |-> "mod", path |-> Path(i, pr.n), names |-> <<>>], Print(Fld(V(MName(pr.n)), "count")),
           Print(Call(Fld(V(MName(pr.n)), "bump"), <<>>))>>

RECURSIVE Cat(_, _)
Cat(seqs, k) == IF k > Len(seqs) THEN <<>> ELSE seqs[k] \o Cat(seqs, k + 1)

Tag(i, w) == Print(S(MName(i) \o ":" \o w))
CounterBody ==
    <<Tag(pr.n, "init"), TypeExport(pr.n),
      [k |-> "let", n |-> "count", ty |-> "int", e |-> I(0), mod |-> FALSE, const |-> FALSE, export |-> TRUE],
      [k |-> "let", n |-> "bump", ty |-> "fn() -> int", mod |-> FALSE, const |-> FALSE, export |-> TRUE,
       e |-> Fn("bump", <<>>, "int", <<Modify("count", Bin("+", V("count"), I(1))), Ret(V("count"))>>)],
      [k |-> "let", n |-> "cur", ty |-> "fn() -> int", mod |-> FALSE, const |-> FALSE, export |-> TRUE,
       e |-> Fn("cur", <<>>, "int", <<Ret(V("count"))>>)],
      Let("hidden", I(42)),
      Tag(pr.n, "done")>>

(* names imported with `import a from m` collide between modules when two imports bring   *)
(* the same name: a module imports at most one non-counter module by names (filtered)     *)
NamesClash == \E i \in Mods(pr.n) : Cardinality({j \in Succs(i) : ~IsCounter(j) /\ pr.form[<<i, j>>] = "names"}) > 1

ModBody(i) ==
    IF IsCounter(i) THEN CounterBody
    ELSE LET ss == Ascending(Succs(i), 1)
             early == [k \in 1..Len(ss) |-> IF pr.place[<<i, ss[k]>>] = "early" THEN <<ImportOf(i, ss[k])>> ELSE <<>>]
             late == [k \in 1..Len(ss) |-> IF pr.place[<<i, ss[k]>>] = "late" THEN <<ImportOf(i, ss[k])>> ELSE <<>>]
             uses == [k \in 1..Len(ss) |-> UseOf(i, ss[k])] IN
         Cat(early, 1) \o <<Tag(i, "start"), TypeExport(i)>> \o Cat(late, 1) \o <<Tag(i, "mid")>> \o Cat(uses, 1) \o Again(i)
         \o (IF i \in pr.bare THEN <<>> ELSE
             <<[k |-> "let", n |-> "val", ty |-> "int", e |-> I(100 * i), mod |-> FALSE, const |-> FALSE, export |-> TRUE],
               [k |-> "let", n |-> "peek", ty |-> "fn() -> int", mod |-> FALSE, const |-> FALSE, export |-> TRUE,
                e |-> Fn("peek", <<>>, "int", <<Ret(Bin("+", V("val"), I(1)))>>)]>>
             \o (IF HasVia(i) THEN <<[k |-> "let", n |-> "via", ty |-> "fn() -> int", mod |-> FALSE, const |-> FALSE, export |-> TRUE,
                                       e |-> Fn("via", <<>>, "int", <<Ret(Call(Member(i, pr.n, "bump"), <<>>))>>)]>> ELSE <<>>))
         \o <<Tag(i, "end")>>

Project == [entry |-> 1, mods |-> [i \in 1..pr.n |-> [name |-> MName(i), dir |-> (IF InSub(i) THEN "sub/" ELSE ""), body |-> ModBody(i)]]]

EdgeList == LET RECURSIVE L(_, _)
                L(i, acc) == IF i > pr.n THEN acc
                             ELSE L(i + 1, acc \o [k \in 1..Len(Ascending(Succs(i), 1)) |->
                                   LET j == Ascending(Succs(i), 1)[k] IN
                                   [i |-> i, j |-> j, form |-> pr.form[<<i, j>>], spell |-> pr.spell[<<i, j>>], place |-> pr.place[<<i, j>>]]])
            IN L(1, <<>>)

BareList == [k \in 1..pr.n |-> k \in pr.bare]
EmitLight == ~NamesClash => PrintT("CASE " \o ToJson([n |-> pr.n, edges |-> EdgeList, bare |-> BareList, lay |-> pr.lay, again |-> pr.again]))
EmitCase == ~NamesClash => PrintT("CASE " \o ToJson([n |-> pr.n, edges |-> EdgeList, bare |-> BareList, lay |-> pr.lay, again |-> pr.again, prog |-> Project]))
=============================================================================
