------------------------------- MODULE GenFail -------------------------------
(* Generator for C17: each dynamic failure kind, raised at the bottom of a call *)
(* chain of 0..MaxDepth activations of chosen kinds (function, method, list      *)
(* callback), optionally continuing in an imported module, inside or outside an  *)
(* if / while block, with output before the failure at every level.             *)
EXTENDS Ast, TLC, Json

CONSTANT MaxDepth

FailKinds == {"assert", "nil", "index", "index_empty", "zerodiv", "overflow", "remove", "remove_empty", "key_strindex",
              "zerodiv_assign", "zerorem_assign", "zerodiv_elem", "assert_sameline", "nil_sameline",
              "substring_range", "substring_reversed", "delete_range", "delete_reversed", "insert_range", "radix_range",
              "nil_elem", "nil_field",
              \* the same range errors on a receiver of more than 32 bytes with multi-byte characters around byte 32 (whatever
              \* the report quotes of the receiver, it is still a report)
              "substring_range_long", "delete_range_long", "insert_range_long", "substring_reversed_long"}
Positions == {"plain", "inif", "inwhile"}
LevelKinds == {"fn", "method", "callback", "rec", "rectail"}
\* rec / rectail: a function that calls itself twice before it goes on (three activations of one function are open when the
\* failure happens); `rectail` recurses in tail position (`return self(..)`), `rec` uses the result afterwards.  At most one
\* such level per chain, and only with the failing statement in plain position (keeps the product small).
RecKinds == {"rec", "rectail"}

VARIABLES kind, pos, chain, split, done
vars == <<kind, pos, chain, split, done>>

Init == kind \in FailKinds /\ pos \in Positions /\ chain = <<>> /\ split = 0 /\ done = FALSE
Extend(k) == ~done /\ Len(chain) < MaxDepth
             /\ (k \in RecKinds => pos = "plain" /\ \A j \in 1..Len(chain) : chain[j] \notin RecKinds)
             /\ chain' = Append(chain, k) /\ UNCHANGED <<kind, pos, split, done>>
Finish(s) == ~done /\ s \in 0..Len(chain) /\ split' = s /\ done' = TRUE /\ UNCHANGED <<kind, pos, chain>>
Next == (\E k \in LevelKinds : Extend(k)) \/ (\E s \in 0..MaxDepth : Finish(s))

CN(k) == "c" \o ToString(k)
FT == "fn(int) -> int"

(* the failing construct on one source line, after multi-byte text (positions count characters) *)
OneLine(st) == [k |-> "if", c |-> Bin("!=", S("größe 日本"), S("x")), t |-> <<st>>, e |-> <<>>, haselse |-> FALSE, elif |-> FALSE, oneline |-> TRUE]
LongS == S("aaaaaaaaaaaaaaaaaaaaaaaaaaaaaaaóóó日本語bbbbbbbbbb")      \* 31 one-byte characters, then two-byte and three-byte ones
OpAssign(target, op, e) == [k |-> "assign", target |-> target, op |-> op, e |-> e]
FailCore ==
    CASE kind = "assert_sameline" -> <<OneLine(Assert(Bin("==", V("d"), I(12345))))>>
      [] kind = "nil_sameline" -> <<LetT("o", "int?", Nil), OneLine(Print(Get(V("o"))))>>
      [] kind = "zerodiv_assign" -> <<Let("q", I(7)), Let("z", Bin("-", V("d"), V("d"))), OpAssign(V("q"), "/", V("z")), Print(V("q"))>>
      [] kind = "zerorem_assign" -> <<Let("q", I(7)), Let("z", Bin("-", V("d"), V("d"))), OpAssign(V("q"), "%", V("z")), Print(V("q"))>>
      [] kind = "zerodiv_elem" -> <<LetT("xs", "[int...]", List(<<I(7)>>)), Let("z", Bin("-", V("d"), V("d"))), Let("k0", I(0)),
                                    OpAssign(Idx(V("xs"), V("k0")), "/", V("z")), Print(V("xs"))>>
      \* `get` of nil behind a list element / an object field
      [] kind = "nil_elem" -> <<LetT("os", "[int?...]", List(<<Nil, I(4)>>)), Let("k", Bin("-", V("d"), V("d"))), Print(Get(Idx(V("os"), V("k"))))>>
      [] kind = "nil_field" -> <<[k |-> "class", n |-> "HN", export |-> FALSE, fields |-> <<[n |-> "f", ty |-> "int?"]>>,
                                  ctor |-> <<[ps |-> <<>>, b |-> <<Assign(Fld(Self, "f"), "=", Nil)>>]>>, methods |-> <<>>],
                                 Let("hn", New("HN", <<>>)), Print(Get(Fld(V("hn"), "f")))>>
      \* built-in range errors (d = 3 at every site)
      [] kind = "substring_range" -> <<Let("s", S("ab")), Print(MCall(V("s"), "substring", <<I(1), Bin("+", V("d"), I(2))>>))>>
      [] kind = "substring_reversed" -> <<Let("s", S("abcdef")), Print(MCall(V("s"), "substring", <<V("d"), I(1)>>))>>
      [] kind = "delete_range" -> <<Let("s", S("ab")), Print(MCall(V("s"), "delete", <<I(1), Bin("+", V("d"), I(2))>>))>>
      [] kind = "delete_reversed" -> <<Let("s", S("abcdef")), Print(MCall(V("s"), "delete", <<V("d"), I(1)>>))>>
      [] kind = "insert_range" -> <<Let("s", S("ab")), Print(MCall(V("s"), "insert", <<S("x"), V("d")>>))>>
      [] kind = "substring_range_long" -> <<Let("s", LongS), Print(MCall(V("s"), "substring", <<I(0), Bin("+", V("d"), I(500))>>))>>
      [] kind = "substring_reversed_long" -> <<Let("s", LongS), Print(MCall(V("s"), "substring", <<Bin("+", V("d"), I(30)), I(1)>>))>>
      [] kind = "delete_range_long" -> <<Let("s", LongS), Print(MCall(V("s"), "delete", <<I(1), Bin("+", V("d"), I(500))>>))>>
      [] kind = "insert_range_long" -> <<Let("s", LongS), Print(MCall(V("s"), "insert", <<S("x"), Bin("+", V("d"), I(500))>>))>>
      [] kind = "radix_range" -> <<Let("s", S("11")), Print(MCall(V("s"), "parse_int_radix", <<Bin("*", V("d"), I(20))>>))>>
      [] kind = "assert" -> <<Assert(Bin("==", V("d"), I(12345)))>>
      [] kind = "nil" -> <<LetT("o", "int?", Nil), Print(Get(V("o")))>>
      [] kind = "index" -> <<LetT("xs", "[int...]", List(<<I(1)>>)), Let("k", V("d")), Print(Idx(V("xs"), V("k")))>>
      [] kind = "index_empty" -> <<LetT("xs", "[int...]", List(<<>>)), Let("k", Bin("-", V("d"), V("d"))), Print(Idx(V("xs"), V("k")))>>
      [] kind = "remove_empty" -> <<LetT("xs", "[int...]", List(<<>>)), Let("k", Bin("-", V("d"), V("d"))), Print(MCall(V("xs"), "remove", <<V("k")>>))>>
      [] kind = "zerodiv" -> <<Let("z", Bin("-", V("d"), V("d"))), Print(Bin("/", I(7), V("z")))>>
      [] kind = "overflow" -> <<Let("big", I(2147483647)), Print(Bin("+", V("big"), V("d")))>>
      [] kind = "remove" -> <<LetT("xs", "[int...]", List(<<I(1)>>)), Let("k", V("d")), Print(MCall(V("xs"), "remove", <<V("k")>>))>>
      [] kind = "key_strindex" -> <<Let("s", S("ab")), Let("k", V("d")), Print(Idx(V("s"), V("k")))>>
FailStmts ==
    CASE pos = "plain" -> FailCore
      [] pos = "inif" -> <<If(Bin(">", V("d"), I(0)), FailCore)>>
      [] pos = "inwhile" -> <<While(Bin(">", V("d"), I(0)), FailCore)>>

(* how level k-1 (living in module `from`) refers to the callable of level k *)
InLib(k) == split # 0 /\ k >= split
Ref(k, fromLib) == IF InLib(k) /\ ~fromLib THEN Fld(V("lib"), CN(k)) ELSE V(CN(k))

LetX(n, ty, e, exported) == [k |-> "let", n |-> n, ty |-> (IF exported THEN ty ELSE ""), e |-> e, mod |-> FALSE, const |-> FALSE, export |-> exported]

(* statements defining level k (its callable is CN(k)) *)
Level(k) ==
    LET n == Len(chain)
        lib == InLib(k)
        exported == lib /\ k = split
        inner == IF k = n THEN <<Print(S("in" \o ToString(k)))>> \o FailStmts \o <<Ret(I(0))>>
                 ELSE <<>> IN
    IF k = n + 1 THEN <<>>     \* no such level
    ELSE CASE chain[k] = "fn" ->
           <<LetX(CN(k), FT, Fn(CN(k), <<P("d", "int")>>, "int",
                 IF k = n THEN inner
                 ELSE <<Print(S("in" \o ToString(k))), Let("r", Call(Ref(k + 1, lib), <<V("d")>>)), Print(S("back")), Ret(V("r"))>>), exported)>>
      [] chain[k] \in RecKinds ->
           <<LetX(CN(k), FT, Fn(CN(k), <<P("d", "int")>>, "int",
                 <<Print(S("in" \o ToString(k))),
                   If(Bin("<", V("d"), I(20)),
                      IF chain[k] = "rectail" THEN <<Ret(Call(Self, <<Bin("+", V("d"), I(10))>>))>>
                      ELSE <<Let("rr", Call(Self, <<Bin("+", V("d"), I(10))>>)), Print(S("unwound")), Ret(V("rr"))>>),
                   Let("d", Bin("%", V("d"), I(10)))>>
                 \o (IF k = n THEN FailStmts \o <<Ret(I(0))>>
                     ELSE <<Let("r", Call(Ref(k + 1, lib), <<V("d")>>)), Print(S("back")), Ret(V("r"))>>)), exported)>>
      [] chain[k] = "callback" ->
           <<LetX(CN(k), FT, Fn(CN(k), <<P("d", "int")>>, "int",
                 IF k = n THEN inner
                 ELSE <<Print(S("in" \o ToString(k))), Let("nx", Ref(k + 1, lib)),
                        Let("rs", MCall(List(<<V("d")>>), "map", <<V("nx")>>)), Let("k0", I(0)), Ret(Idx(V("rs"), V("k0")))>>), exported)>>
      [] chain[k] = "method" ->
           <<[k |-> "class", n |-> "K" \o ToString(k), export |-> FALSE, fields |-> <<>>, ctor |-> <<>>,
              methods |-> <<[n |-> "go", ps |-> <<P("d", "int")>>, rt |-> "int",
                             b |-> IF k = n THEN inner
                                   ELSE <<Print(S("in" \o ToString(k))), Ret(Call(Ref(k + 1, lib), <<V("d")>>))>>]>>],
             Let("o" \o ToString(k), New("K" \o ToString(k), <<>>)),
             LetX(CN(k), FT, Fn(CN(k) \o "w", <<P("d", "int")>>, "int", <<Ret(MCall(V("o" \o ToString(k)), "go", <<V("d")>>))>>), exported)>>

RECURSIVE LevelsDown(_, _, _)
(* levels hi down to lo (inner levels are defined first so that outer ones can capture them) *)
LevelsDown(hi, lo, inLib) == IF hi < lo THEN <<>>
                             ELSE (IF InLib(hi) = inLib THEN Level(hi) ELSE <<>>) \o LevelsDown(hi - 1, lo, inLib)

MainBody ==
    LET n == Len(chain) IN
    (IF split # 0 THEN <<[k |-> "import", form |-> "mod", path |-> "lib", names |-> <<>>]>> ELSE <<>>)
    \o LevelsDown(n, 1, FALSE)
    \o <<Print(S("start"))>>
    \o (IF n = 0 THEN <<Let("d", I(3))>> \o FailStmts
        ELSE <<Print(Call(Ref(1, FALSE), <<I(3)>>))>>)
    \o <<Print(S("not reached"))>>
LibBody == <<Print(S("lib:init"))>> \o LevelsDown(Len(chain), 1, TRUE)

Project == IF split = 0 THEN [body |-> MainBody]
           ELSE [entry |-> 1, mods |-> <<[name |-> "main", body |-> MainBody], [name |-> "lib", body |-> LibBody]>>]

EmitCase == done => PrintT("CASE " \o ToJson([kind |-> kind, pos |-> pos, chain |-> chain, split |-> split, prog |-> Project]))
=============================================================================
