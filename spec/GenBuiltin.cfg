CONSTANT Full = FALSE
INIT Init
NEXT Next
INVARIANT EmitCase
