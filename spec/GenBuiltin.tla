------------------------------ MODULE GenBuiltin ------------------------------
(* Generator for C14: every built-in method x receivers / arguments from boundary *)
(* sets (empty, length-1 and longer ASCII strings; positions -1, 0, len-1, len,    *)
(* len+1; numeric extremes of each kind; exponents; radices 1, 2, 10, 16, 36, 37). *)
EXTENDS NumTables, Sequences, TLC, Json

CONSTANT Full

Strs == {"", "a", "ab", "abcab", "hello world"}
(* multi-byte text: only for methods whose meaning does not depend on the byte / character unit *)
UStrs == {"héllo wörld", "日本語"}
Pats == {"", "a", "ab", "b", "zz", "o w"}
Pos == -1..6
ParseTexts == {"", "0", "7", "-7", "+7", "42", "-2147483648", "2147483647", "2147483648", "-2147483649", "12a", "a", " 5", "5 ",
               "170141183460469231731687303715884105727", "170141183460469231731687303715884105728",
               "-170141183460469231731687303715884105728", "255", "256", "0b101", "0b100000000", "0b", "true", "false", "True", "1.5",
               "-0.25", "3", "0.1", "1e3", "abc", "ff", "FF", "zz", "10", "-10", "1.", ".5", "1.5.2"}
Radices == {1, 2, 10, 16, 36, 37}
SV(s) == [t |-> "str", s |-> s]
IV(n) == [t |-> "num", kind |-> "int", dec |-> ToString(n)]
NV(v) == v @@ [t |-> "num"]

NumVals == [k \in 1..Len(IntVals) |-> IntVals[k]] \o BigVals \o ByteVals \o FloatVals
NumIdx == IF Full THEN 1..Len(NumVals) ELSE {1, 5, 6, 7, 12, 17, 18, 23, 24, 30, 34, 35, 39, 43, 44, 45, 46, 50, 52, 53, 55, 56, 58, 60, 63}
IsFloat(v) == v.kind = "float"
Exps == {-1, 0, 1, 2, 3, 31, 62, 63, 127, 128}

C(recv, method, args) == [recv |-> recv, method |-> method, args |-> args]

StrCases ==
    {C(SV(s), m, <<>>) : s \in Strs, m \in {"len", "reverse", "chars"}}
    \cup {C(SV(s), "index", <<IV(p)>>) : s \in Strs, p \in Pos}
    \cup {C(SV(s), "index", <<IV(p)>>) : s \in UStrs, p \in 0..11}
    \cup {C(SV(s), m, <<>>) : s \in UStrs, m \in {"reverse", "chars"}}
    \cup {C(SV(s), m, <<SV(p)>>) : s \in UStrs, m \in {"contains", "concat"}, p \in {"ö", "l", "語", "zz"}}
    \cup {C(SV(s), "split", <<IV(p)>>) : s \in Strs, p \in 0..6}
    \cup {C(SV(s), "repeat", <<IV(p)>>) : s \in Strs, p \in -1..3}
    \cup {C(SV(s), m, <<IV(a), IV(b)>>) : s \in Strs, m \in {"substring", "delete"}, a \in Pos, b \in Pos}
    \cup {C(SV(s), m, <<SV(p)>>) : s \in Strs, m \in {"contains", "index_of", "concat"}, p \in Pats}
    \cup {C(SV(s), "insert", <<SV(p), IV(a)>>) : s \in Strs, p \in {"", "X", "xy"}, a \in Pos}
    \cup {C(SV(s), "replace", <<SV(p), SV(r)>>) : s \in Strs, p \in Pats \ {""}, r \in {"", "Q", "ab"}}
    \cup {C(SV(s), m, <<>>) : s \in ParseTexts, m \in {"parse_int", "parse_bigint", "parse_byte", "parse_bool", "parse_float"}}
    \cup {C(SV(s), m, <<IV(r)>>) : s \in ParseTexts, m \in {"parse_int_radix", "parse_bigint_radix"}, r \in Radices}
NumCases ==
    {C(NV(NumVals[k]), m, <<>>) : k \in NumIdx, m \in {"to_int", "to_bigint", "to_byte", "to_float", "abs", "sqrt", "to_str"}}
    \cup {C(NV(NumVals[k]), "pow", <<IV(e)>>) : k \in {j \in NumIdx : ~IsFloat(NumVals[j])}, e \in Exps}
    \cup {C(NV(NumVals[k]), m, <<>>) : k \in {j \in NumIdx : IsFloat(NumVals[j])}, m \in {"floor", "ceil", "round", "ipart", "fpart"}}
    \cup {C(NV(ConvFloats[k]), m, <<>>) : k \in 1..Len(ConvFloats), m \in {"to_int", "to_bigint", "to_byte", "floor", "ceil", "round", "ipart", "fpart", "to_str", "abs"}}
    \cup {C([t |-> "num", kind |-> "byte", dec |-> ToString(n)], "to_ascii", <<>>) : n \in {32, 33, 48, 57, 65, 90, 97, 122, 126}}

VARIABLE c
Init == c \in StrCases \cup NumCases
Next == UNCHANGED c
EmitCase == PrintT("CASE " \o ToJson(c))
=============================================================================
