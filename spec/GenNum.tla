-------------------------------- MODULE GenNum --------------------------------
(* Generator for C05: every (operator, left kind, right kind) triple x every pair *)
(* of boundary values of those kinds (index sets chosen by the configuration).     *)
EXTENDS NumTables, Integers, Sequences, TLC, Json

CONSTANT Full      \* TRUE: all boundary values, FALSE: the quick subset

Kinds == {"int", "bigint", "byte", "float"}
Ops == {"+", "-", "*", "/", "%", "<<", ">>", "&", "|", "xor", "<", "<=", ">", ">=", "==", "!="}
Table(k) == CASE k = "int" -> IntVals [] k = "bigint" -> BigVals [] k = "byte" -> ByteVals [] k = "float" -> FloatVals
Idx(k) == IF Full THEN 1..Len(Table(k)) ELSE QuickIdx[k]

VARIABLE c
Init == \E op \in Ops, ka \in Kinds, kb \in Kinds : \E ia \in Idx(ka), ib \in Idx(kb) :
          c = [op |-> op, a |-> Table(ka)[ia], b |-> Table(kb)[ib]]
        \/ \E kn \in Kinds : \E jn \in Idx(kn) : c = [op |-> "neg", a |-> Table(kn)[jn], b |-> Table(kn)[jn]]
Next == UNCHANGED c
EmitCase == PrintT("CASE " \o ToJson(c))
=============================================================================
