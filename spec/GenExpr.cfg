CONSTANT MaxDepth = 2
CONSTANT LitIdx <- QuickLits
INIT Init
NEXT Next
INVARIANT EmitCase
