------------------------------- MODULE GenExpr -------------------------------
(* Generator for C06: expression trees over numeric literals.  Trees are built as *)
(* prefix token sequences (like GenOrder): BFS enumerates every tree up to        *)
(* MaxDepth, -simulate samples deeper ones.  A token is a literal index or an     *)
(* operator name.                                                                 *)
EXTENDS LitTables, Sequences, TLC, Json

CONSTANTS MaxDepth, LitIdx      \* LitIdx: the literal indices used as leaves

LTok(i) == "L" \o ToString(i)
QuickLits == {LTok(i) : i \in {1, 2, 3, 5, 9, 11, 14, 16, 19, 20, 21, 23, 28, 29}}
AllLits == {LTok(i) : i \in DOMAIN Lits}
IsLit(p) == p \in AllLits
LitOf(p) == Lits[CHOOSE i \in DOMAIN Lits : LTok(i) = p]
(* negated literal leaves (`-7`): a leaf, so that every operator meets negative operands already at the *)
(* exhaustive level (sign of the remainder, rounding of the quotient, shifts of negative values, ...)  *)
NTok(i) == "N" \o ToString(i)
NegIdx == {NTok(i) : i \in {j \in DOMAIN Lits : LTok(j) \in LitIdx /\ Lits[j].kind # "byte" /\ Lits[j].src \notin {"0", "B0"}}}
AllNegs == {NTok(i) : i \in DOMAIN Lits}
IsNeg(p) == p \in AllNegs
NegOf(p) == Lits[CHOOSE i \in DOMAIN Lits : NTok(i) = p]
BinOps == {"+", "-", "*", "/", "%", "<<", ">>", "&", "|", "xor"}
(* comparisons: only as the operator directly below the root (their result is a bool, which no other operator of the tree takes) *)
CmpOps == {"<", "<=", ">", ">=", "==", "!="}
Roots == {"one", "list2"}

VARIABLES toks, pend
Init == toks = <<>> /\ pend = <<[ty |-> "root", d |-> 0, ng |-> FALSE]>>

Arity(p) == IF p \in BinOps \cup CmpOps THEN 2 ELSE IF p \in {"neg", "ornil", "get"} THEN 1
            ELSE IF p = "list2" THEN 2 ELSE IF p = "one" THEN 1 ELSE 0
Choose(p) ==
    /\ pend # <<>>
    /\ LET h == Head(pend) IN
       /\ IF h.ty = "root" THEN p \in Roots
          ELSE IF h.d >= MaxDepth THEN p \in LitIdx \cup (IF h.ng THEN NegIdx ELSE {})
          ELSE p \in LitIdx \cup BinOps \cup {"neg", "ornil", "get"} \cup (IF h.d = 1 /\ h.ng THEN CmpOps ELSE {})
       /\ toks' = Append(toks, p)
       \* the second element of a list is a plain literal (keeps the list space linear); negated leaves
       \* only as operands of a binary operator below the root `one`
       /\ pend' = [k \in 1..Arity(p) |-> [ty |-> "e", d |-> IF p = "list2" /\ k = 2 THEN MaxDepth ELSE h.d + 1,
                                           ng |-> (p = "one") \/ (h.ng /\ p \in BinOps \cup CmpOps)]] \o Tail(pend)
Next == \E p \in LitIdx \cup NegIdx \cup BinOps \cup CmpOps \cup {"neg", "ornil", "get"} \cup Roots : Choose(p)

RECURSIVE Parse(_, _)
Parse(ts, i) ==
    LET p == ts[i] IN
    IF IsLit(p) THEN [e |-> LitOf(p), nx |-> i + 1]
    ELSE IF IsNeg(p) THEN [e |-> [k |-> "neg", e |-> NegOf(p)], nx |-> i + 1]
    ELSE IF Arity(p) = 1 THEN
        LET a == Parse(ts, i + 1) IN
        [nx |-> a.nx, e |-> CASE p = "neg" -> [k |-> "neg", e |-> a.e]
                               [] p = "ornil" -> [k |-> "or", e |-> [k |-> "nil"], d |-> a.e]
                               [] p = "get" -> [k |-> "get", e |-> a.e]
                               [] p = "one" -> [k |-> "one", e |-> a.e]]
    ELSE LET a == Parse(ts, i + 1) b == Parse(ts, a.nx) IN
         [nx |-> b.nx, e |-> IF p = "list2" THEN [k |-> "list2", l |-> a.e, r |-> b.e]
                             ELSE [k |-> "bin", op |-> p, l |-> a.e, r |-> b.e]]

EmitCase == (pend = <<>> /\ toks # <<>>) => PrintT("CASE " \o ToJson([toks |-> toks, tree |-> Parse(toks, 1).e]))
=============================================================================
