------------------------------ MODULE CheckFold ------------------------------
(* Judge for C06.  A case is an expression tree over numeric literals together     *)
(* with its observations of the real binary (plus the mixed renderings, see MixedOk): the *folded* rendering (literals in   *)
(* place: the compiler evaluates it) and the *unfolded* rendering (every literal   *)
(* reaches the expression through a variable: the interpreter evaluates it).        *)
(* MSNum gives the value and kind both must have, or says that both must fail -     *)
(* the folded one at compile time.                                                  *)
EXTENDS MSNum, Json, IOUtils

Cases == ndJsonDeserialize(IOEnv.CASES)
VARIABLE i
Init == i \in 1..Len(Cases)
Next == UNCHANGED i

LitVal(l) == IF l.kind = "float" THEN VF([cls |-> l.cls, neg |-> l.neg, m |-> NatOfDec(l.m), e |-> l.e])
             ELSE VI(l.kind, IntOfDec(l.dec))
NilVal == [kind |-> "nil"]

RECURSIVE Ev(_)
Ev(t) ==
    CASE t.k = "lit" -> Value(LitVal(t))
      [] t.k = "nil" -> Value(NilVal)
      [] t.k = "neg" -> LET a == Ev(t.e) IN IF ~a.ok THEN a ELSE IF a.v.kind = "nil" THEN Failure("type") ELSE Negate(a.v)
      [] t.k = "get" -> LET a == Ev(t.e) IN IF ~a.ok THEN a ELSE IF a.v.kind = "nil" THEN Failure("nil") ELSE a
      [] t.k = "or" -> LET a == Ev(t.e) IN IF ~a.ok THEN a ELSE IF a.v.kind = "nil" THEN Ev(t.d) ELSE a
      [] t.k = "bin" -> LET a == Ev(t.l) IN
                        IF ~a.ok THEN a
                        ELSE LET b == Ev(t.r) IN
                             IF ~b.ok THEN b
                             ELSE IF a.v.kind = "nil" \/ b.v.kind = "nil" THEN Failure("type")
                             ELSE Arith(t.op, a.v, b.v)
      [] t.k = "one" -> Ev(t.e)

(* static kind of a tree, independent of values: "ill" when an operator is applied to kinds it *)
(* does not support (the type checker rejects those programs in both renderings)              *)
RECURSIVE KindOf(_)
KindOf(t) ==
    CASE t.k = "lit" -> t.kind
      [] t.k = "nil" -> "nil"
      [] t.k = "neg" -> LET a == KindOf(t.e) IN IF a \in {"ill", "nil", "byte"} THEN "ill" ELSE a
      [] t.k = "get" -> LET a == KindOf(t.e) IN IF a = "nil" THEN "nil" ELSE a
      [] t.k = "or" -> LET a == KindOf(t.e) d == KindOf(t.d) IN
                       IF a = "ill" \/ d = "ill" THEN "ill" ELSE IF a = "nil" THEN d ELSE IF a = d THEN a ELSE "ill"
      [] t.k = "bin" -> LET a == KindOf(t.l) b == KindOf(t.r) IN
                        IF a \in {"ill", "nil"} \/ b \in {"ill", "nil"} THEN "ill"
                        ELSE IF t.op \in {"<<", ">>", "&", "|", "xor"} /\ (a = "float" \/ b = "float") THEN "ill"
                        ELSE IF t.op \in {"<", "<=", ">", ">=", "==", "!="} THEN "bool"
                        ELSE Promote(a, b)
      [] t.k = "one" -> KindOf(t.e)
IllTyped(t) == KindOf(t) = "ill"

JVal(j) == IF j.kind = "float" THEN VF([cls |-> j.cls, neg |-> j.neg, m |-> NatOfDec(j.m), e |-> j.e])
           ELSE VI(j.kind, IntOfDec(j.dec))
Same(v, j) == /\ v.kind = j.kind
              /\ IF v.kind = "bool" THEN j.dec = (IF v.b THEN "1" ELSE "0")
                 ELSE IF v.kind = "float" THEN j.cls = "fin" /\ FCmp(v.f, JVal(j).f) = 0 /\ (v.f.m = <<>> => v.f.neg = JVal(j).f.neg) ELSE ZCmp(v.z, IntOfDec(j.dec)) = 0
Show(v) == IF v.kind = "bool" THEN [kind |-> "bool", dec |-> (IF v.b THEN "1" ELSE "0")]
           ELSE IF v.kind = "float" THEN [kind |-> "float", neg |-> v.f.neg, m |-> DecOfNat(v.f.m), e |-> v.f.e]
           ELSE [kind |-> v.kind, dec |-> DecOfInt(v.z)]

(* expectation for one scalar expression and its two observations *)
Holds(r, folded, unfolded) ==
    IF r.ok THEN /\ folded.status = "ok" /\ Same(r.v, folded.val)
                 /\ unfolded.status = "ok" /\ Same(r.v, unfolded.val)
    ELSE folded.status = "reject" /\ unfolded.status = "fail"

(* the *mixed* renderings (every other literal reaches the expression through a variable, the rest stay in place: the    *)
(* compiler folds some sub-expressions, specialises operators with one constant operand, and the interpreter does the    *)
(* rest): the same value and kind; a failing tree fails in either phase                                                  *)
MixedOk(r, ms) == \A k \in 1..Len(ms) : IF r.ok THEN ms[k].status = "ok" /\ Same(r.v, ms[k].val) ELSE ms[k].status \in {"reject", "fail"}

Skip(r) == (~r.ok /\ (r.oom \/ r.why = "type"))

(* outside the tower model (a float result that is infinite or NaN): the specification has no value to offer, but the property *)
(* itself still speaks - the compiler's answer and the interpreter's answer are the same answer                                *)
SameObs(x, y) == /\ x.status = y.status
                 /\ (x.status = "ok" =>
                        /\ x.val.kind = y.val.kind
                        /\ IF x.val.kind = "float" THEN x.val.cls = y.val.cls /\ (x.val.cls = "nan" \/ (x.val.neg = y.val.neg /\ x.val.m = y.val.m /\ x.val.e = y.val.e))
                           ELSE x.val.dec = y.val.dec)
Agree(c) == SameObs(c.folded, c.unfolded) /\ \A k \in 1..Len(c.mixed) : SameObs(c.mixed[k], c.unfolded)

Judge ==
    LET c == Cases[i] IN
    IF c.tree.k = "list2" THEN
        LET a == Ev(c.tree.l) b == Ev(c.tree.r) IN
        IF IllTyped(c.tree.l) \/ IllTyped(c.tree.r) \/ Skip(a) \/ Skip(b) THEN PrintT("SKIP " \o ToJson([id |-> c.id]))
        ELSE IF a.ok /\ b.ok THEN
             ((c.folded.status = "ok" /\ c.unfolded.status = "ok"
               /\ Len(c.folded.vals) = 2 /\ Len(c.unfolded.vals) = 2
               /\ Same(a.v, c.folded.vals[1]) /\ Same(b.v, c.folded.vals[2])
               /\ Same(a.v, c.unfolded.vals[1]) /\ Same(b.v, c.unfolded.vals[2]))
              \/ PrintT("DISAGREE " \o ToJson([id |-> c.id, expected |-> <<Show(a.v), Show(b.v)>>])))
        ELSE (c.folded.status = "reject" /\ c.unfolded.status = "fail")
             \/ PrintT("DISAGREE " \o ToJson([id |-> c.id, expected |-> <<[fail |-> TRUE]>>]))
    ELSE LET r == Ev(c.tree) IN
         IF c.tree.k = "one" /\ c.tree.e.k = "bin" /\ c.tree.e.op \in {"<", "<=", ">", ">=", "==", "!="}
            /\ c.folded.status = "reject" /\ c.unfolded.status = "reject" THEN
              PrintT("SKIP " \o ToJson([id |-> c.id]))     \* which kinds may be compared is the type checker's business (C02 / C03): nothing was folded, nothing ran
         ELSE IF ~IllTyped(c.tree) /\ ~r.ok /\ r.oom /\ c.unfolded.status = "ok" THEN
              (Agree(c) \/ PrintT("DISAGREE " \o ToJson([id |-> c.id, expected |-> <<[agree_with_unfolded |-> TRUE]>>])))
              /\ PrintT("SKIP " \o ToJson([id |-> c.id]))
         ELSE IF IllTyped(c.tree) \/ Skip(r) THEN PrintT("SKIP " \o ToJson([id |-> c.id]))
         ELSE (Holds(r, c.folded, c.unfolded) /\ MixedOk(r, c.mixed))
              \/ PrintT("DISAGREE " \o ToJson([id |-> c.id, expected |-> IF r.ok THEN <<Show(r.v)>> ELSE <<[fail |-> r.why]>>]))
=============================================================================
