------------------------------- MODULE MSCodec -------------------------------
(* The three writers and the one tokenizer of instruction arguments.             *)
(*   source literal  --Decode-->  argument                (compiler/src/ast/string.rs) *)
(*   argument  --WriteBin-->  .mmm record bytes            (compiler/src/ast.rs repr(false)) *)
(*   argument  --WriteText--> raw-text line                (compiler/src/ast.rs repr(true))  *)
(*   raw-text line --Tokenize--> arguments --Reencode--> .mmm record   (bytecode_dev_transpiler) *)
(*   .mmm record --Tokenize--> arguments                   (bytecode/src/instruction.rs split_string_v2) *)
(* Strings are sequences of one-character strings.  The tokenizer is the          *)
(* character-step state machine of split_string_v2.                               *)
EXTENDS Integers, Sequences, TLC

QUOTE == "\""
BSL == "\\"
SP == " "
TAB == "\t"
LF == "\n"
CR == "\r"
NBSP == " "      \* U+00A0 NO-BREAK SPACE: whitespace for char::is_whitespace, not for is_ascii_whitespace

(* char::is_whitespace restricted to the characters the generators use *)
IsWS(c) == c \in {SP, TAB, LF, CR, "\f", NBSP}

-----------------------------------------------------------------------------
(* split_string_v2(string, multi_target) *)
TokInit == [res |-> <<>>, buf |-> <<>>, inq |-> FALSE, esc |-> FALSE, err |-> ""]

TokStep(s, c, multi) ==
    IF s.err # "" THEN s
    ELSE IF ~s.inq /\ IsWS(c) THEN
        (IF multi THEN (IF s.buf # <<>> THEN [s EXCEPT !.res = Append(@, s.buf), !.buf = <<>>] ELSE s)
         ELSE [s EXCEPT !.buf = Append(@, c)])
    ELSE IF c = BSL THEN
        [s EXCEPT !.buf = IF s.esc THEN Append(@, c) ELSE @, !.esc = ~s.esc]
    ELSE IF c = QUOTE THEN
        (IF s.esc THEN [s EXCEPT !.buf = Append(@, c), !.esc = FALSE]
         ELSE IF multi /\ s.inq THEN [s EXCEPT !.res = Append(@, s.buf), !.buf = <<>>, !.inq = FALSE]
         ELSE [s EXCEPT !.inq = ~s.inq])
    ELSE IF s.esc /\ c = "n" THEN [s EXCEPT !.buf = Append(@, LF), !.esc = FALSE]
    ELSE IF s.esc /\ c = "r" THEN [s EXCEPT !.buf = Append(@, CR), !.esc = FALSE]
    ELSE IF s.esc /\ c = "t" THEN [s EXCEPT !.buf = Append(@, TAB), !.esc = FALSE]
    ELSE IF s.esc THEN [s EXCEPT !.err = "unknown escape"]
    ELSE [s EXCEPT !.buf = Append(@, c)]

RECURSIVE TokRun(_, _, _, _)
TokRun(s, str, i, multi) == IF i > Len(str) THEN s ELSE TokRun(TokStep(s, str[i], multi), str, i + 1, multi)

TokFinish(s) ==
    IF s.err # "" THEN [ok |-> FALSE, err |-> s.err, toks |-> <<>>]
    ELSE IF s.inq THEN [ok |-> FALSE, err |-> "eol in quotes", toks |-> <<>>]
    ELSE LET r == IF s.buf # <<>> THEN Append(s.res, s.buf) ELSE s.res IN
         [ok |-> TRUE, err |-> "", toks |-> IF r = <<>> THEN << <<>> >> ELSE r]

Tokenize(str, multi) == TokFinish(TokRun(TokInit, str, 1, multi))

-----------------------------------------------------------------------------
(* the pest rule  string = "\"" ~ (("\\\"") | (!("\"") ~ ANY))* ~ "\""  on the text between  *)
(* the outer quotes: it is one literal iff every quote in it is preceded by a backslash that  *)
(* pest pairs with it (greedy left to right: `\"` is consumed as a unit)                      *)
RECURSIVE IsLiteralBody(_, _)
IsLiteralBody(t, i) ==
    IF i > Len(t) THEN TRUE
    ELSE IF t[i] = BSL /\ i < Len(t) /\ t[i + 1] = QUOTE THEN IsLiteralBody(t, i + 2)
    ELSE IF t[i] = BSL /\ i = Len(t) THEN FALSE       \* pairs with the closing quote: the literal does not end here
    ELSE IF t[i] = QUOTE THEN FALSE
    ELSE IsLiteralBody(t, i + 1)

(* Parser::string: split_string_v2("\"" + <token text incl. quotes> + "\"", false)[0] *)
Decode(t) == LET r == Tokenize(<<QUOTE, QUOTE>> \o t \o <<QUOTE, QUOTE>>, FALSE) IN
             IF r.ok THEN [ok |-> TRUE, arg |-> r.toks[1]] ELSE [ok |-> FALSE, arg |-> <<>>]

-----------------------------------------------------------------------------
(* writers *)
RECURSIVE EscapeFrom(_, _)
EscapeFrom(a, i) ==
    IF i > Len(a) THEN <<>>
    ELSE (CASE a[i] = BSL -> <<BSL, BSL>>
            [] a[i] = QUOTE -> <<BSL, QUOTE>>
            [] a[i] = LF -> <<BSL, "n">>
            [] a[i] = CR -> <<BSL, "r">>
            [] a[i] = TAB -> <<BSL, "t">>
            [] OTHER -> <<a[i]>>) \o EscapeFrom(a, i + 1)
Escape(a) == EscapeFrom(a, 1)
Quoted(a) == <<QUOTE>> \o Escape(a) \o <<QUOTE>>

RECURSIVE JoinArgs(_, _)
JoinArgs(args, i) == IF i > Len(args) THEN <<>> ELSE <<SP>> \o Quoted(args[i]) \o JoinArgs(args, i + 1)
(* the argument part of one record: ` "a1" "a2" ...` (compiler writer, both formats) *)
WriteArgs(args) == JoinArgs(args, 1)
(* the transpiler's re-encoder uses the same quoting *)
Reencode(args) == JoinArgs(args, 1)

(* reader of a binary record [id, ' ', args.., NUL]: split_string(args) *)
ReadArgs(bytes) == Tokenize(bytes, TRUE)

(* C04: what the loader reads is what the compiler emitted *)
RoundTripBin(args) ==
    IF args = <<>> THEN TRUE
    ELSE LET w == WriteArgs(args) r == ReadArgs(SubSeq(w, 2, Len(w))) IN r.ok /\ r.toks = args
(* C18: text line -> transpiler tokenizer -> re-encoder -> loader *)
RoundTripText(args) ==
    IF args = <<>> THEN TRUE
    ELSE LET w == WriteArgs(args)
             t == Tokenize(SubSeq(w, 2, Len(w)) \o <<LF>>, TRUE) IN
         /\ LF \notin {w[k] : k \in 1..Len(w)}            \* one instruction = one line
         /\ t.ok /\ t.toks = args
         /\ LET w2 == Reencode(t.toks) r == ReadArgs(SubSeq(w2, 2, Len(w2))) IN r.ok /\ r.toks = args
=============================================================================
