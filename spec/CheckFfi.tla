------------------------------- MODULE CheckFfi -------------------------------
(* judge: observed stdout / exit / error text of the real interpreter running the *)
(* hand-assembled bytecode of the case against MSFfi!Expected                      *)
EXTENDS MSFfi, MSStr
Cases == ndJsonDeserialize(IOEnv.CASES)
VARIABLE i
Init == i \in 1..Len(Cases)
Next == UNCHANGED i
Judge == LET c == Cases[i] e == Expected(c) IN
         (IF e.status = "run" THEN c.obs.exit = 0 /\ c.obs.out = e.out
          ELSE c.obs.exit = 1 /\ c.obs.banner /\ c.obs.out = e.out /\ Find(c.obs.err, e.msg) # 0)
         \/ PrintT("DISAGREE " \o ToJson([id |-> c.id, out |-> e.out, status |-> e.status, msg |-> e.msg]))
=============================================================================
