------------------------------ MODULE MSGrammar ------------------------------
(* Input space for C16 (the compiler is total).  Two machines:                    *)
(*  (1) a derivation machine over a transcription of compiler/src/grammar.pest:    *)
(*      the state is a sentential form, each step expands the leftmost             *)
(*      non-terminal; a depth budget forces termination (when it is used up only   *)
(*      the first, non-recursive production of a rule may be chosen);              *)
(*  (2) a token-edit machine over tokenised programs of the corpus: delete /        *)
(*      duplicate / replace / insert a token, up to MaxEdits edits.                 *)
(* The property itself is a post-condition on the real `compile`, checked by the    *)
(* judge: terminates promptly, exit status 0 or 1, never a panic / abort / hang.    *)
EXTENDS Integers, Sequences, TLC, Json, IOUtils

CONSTANTS Budget, MaxEdits, UseVocab

T(s) == [t |-> s]            \* terminal
N(s) == [n |-> s]            \* non-terminal
IsN(x) == "n" \in DOMAIN x

(* grammar.pest, rule by rule (first alternative of every rule is non-recursive) *)
P(nt) ==
    CASE nt = "file" -> { <<N("decl")>>, <<N("decl"), N("file")>> }
      [] nt = "decl" -> { <<N("value")>>, <<N("assignment")>>, <<N("print")>>, <<N("if")>>, <<N("while")>>, <<N("from")>>,
                          <<N("return")>>, <<T("break")>>, <<T("continue")>>, <<N("assert")>>, <<N("class")>>, <<N("import")>>,
                          <<N("reassign")>>, <<N("typealias")>>, <<T("typeof"), N("value")>> }
      [] nt = "value" -> { <<N("atom")>>, <<N("atom"), N("binop"), N("value")>>, <<N("prefix"), N("atom")>>,
                           <<N("atom"), N("postfix")>>, <<T("("), N("value"), T(")")>>, <<N("prefix"), N("atom"), N("postfix"), N("binop"), N("value")>> }
      [] nt = "atom" -> { <<N("ident")>>, <<N("number")>>, <<N("string")>>, <<T("nil")>>, <<N("list")>>, <<N("function")>>, <<N("map")>>,
                          <<T("self")>>, <<T("true")>>, <<T("false")>> }
      [] nt = "ident" -> { <<T("a")>>, <<T("b")>>, <<T("x1")>>, <<T("Self")>>, <<T("get")>>, <<T("or")>>, <<T("int")>>, <<T("_")>> }
      [] nt = "number" -> { <<T("1")>>, <<T("0")>>, <<T("2147483648")>>, <<T("B5")>>, <<T("0b101")>>, <<T("0x1F")>>, <<T("1.5")>>, <<T("5f")>>,
                            <<T("1_000")>>, <<T("B0x")>>, <<T("0b")>>, <<T("99999999999999999999999999999999999999999")>> }
      [] nt = "string" -> { <<T("\"s\"")>>, <<T("\"\"")>>, <<T("\"a\\\"b\"")>>, <<T("\"\\q\"")>>, <<T("\"é\"")>> }
      [] nt = "binop" -> { <<T("+")>>, <<T("-")>>, <<T("*")>>, <<T("/")>>, <<T("%")>>, <<T("<<")>>, <<T(">>")>>, <<T("<")>>, <<T("<=")>>,
                           <<T(">")>>, <<T(">=")>>, <<T("==")>>, <<T("!=")>>, <<T("&&")>>, <<T("||")>>, <<T("^")>>, <<T("?=")>>, <<T("xor ")>>,
                           <<T("&")>>, <<T("|")>>, <<T("is ")>>, <<T("+=")>>, <<T("-=")>>, <<T("*=")>>, <<T("/=")>>, <<T("%=")>> }
      [] nt = "prefix" -> { <<T("-")>>, <<T("!")>>, <<T("get ")>>, <<T("typeof ")>> }
      [] nt = "postfix" -> { <<T("("), T(")")>>, <<T("("), N("args"), T(")")>>, <<T("["), N("value"), T("]")>>, <<T("."), N("ident")>>,
                             <<T("."), N("ident"), T("("), T(")")>>, <<T("or "), N("value")>>, <<T("."), N("ident"), T("("), N("args"), T(")")>> }
      [] nt = "args" -> { <<N("value")>>, <<N("value"), T(","), N("args")>> }
      [] nt = "list" -> { <<T("["), T("]")>>, <<T("["), N("args"), T("]")>>, <<T("["), N("args"), T(","), T("]")>> }
      [] nt = "map" -> { <<T("map"), T("["), N("type"), T(","), N("type"), T("]")>>,
                         <<T("map"), T("["), N("type"), T(","), N("type"), T("]"), T("{"), N("value"), T(":"), N("value"), T("}")>> }
      [] nt = "type" -> { <<T("int")>>, <<T("str")>>, <<T("bool")>>, <<T("float")>>, <<T("bigint")>>, <<T("byte")>>, <<N("ident")>>,
                          <<N("type"), T("?")>>, <<T("["), N("type"), T("...]")>>, <<T("["), N("type"), T(","), N("type"), T("]")>>,
                          <<T("["), N("type"), T(","), N("type"), T("...]")>>,
                          <<T("fn"), T("("), T(")")>>, <<T("fn"), T("("), N("type"), T(")"), T("->"), N("type")>>,
                          <<T("map"), T("["), N("type"), T(","), N("type"), T("]")>>, <<T("Self")>> }
      [] nt = "function" -> { <<T("fn"), T("("), T(")"), N("block")>>, <<T("fn"), T("("), N("params"), T(")"), N("block")>>,
                              <<T("fn"), T("("), N("params"), T(")"), T("->"), N("type"), N("block")>> }
      [] nt = "params" -> { <<N("ident")>>, <<N("ident"), T(":"), N("type")>>, <<N("ident"), T(":"), N("type"), T(","), N("params")>> }
      [] nt = "block" -> { <<T("{"), T("}")>>, <<T("{"), N("file"), T("}")>> }
      [] nt = "assignment" -> { <<N("ident"), T("="), N("value")>>, <<N("ident"), T(":"), N("type"), T("="), N("value")>>,
                                <<N("flag"), N("ident"), T("="), N("value")>>, <<N("flag"), N("flag"), N("ident"), T(":"), N("type"), T("="), N("value")>>,
                                <<T("["), N("ident"), T(","), N("ident"), T("]"), T("="), N("value")>> }
      [] nt = "flag" -> { <<T("const")>>, <<T("export")>>, <<T("modify")>> }
      [] nt = "reassign" -> { <<N("ident"), T("["), N("value"), T("]"), T("="), N("value")>>, <<N("ident"), T("."), N("ident"), T("="), N("value")>>,
                              <<T("("), N("ident"), T("."), N("ident"), T(")"), T("["), N("value"), T("]"), T("="), N("value")>>,
                              <<N("ident"), T("."), N("ident"), T("("), T(")"), T("="), N("value")>> }
      [] nt = "print" -> { <<T("print "), N("value")>> }
      [] nt = "assert" -> { <<T("assert"), N("value")>> }
      [] nt = "return" -> { <<T("return ")>>, <<T("return "), N("value")>> }
      [] nt = "if" -> { <<T("if"), N("value"), N("block")>>, <<T("if"), N("value"), N("block"), T("else"), N("block")>>,
                        <<T("if"), N("value"), N("block"), T("else"), N("if")>> }
      [] nt = "while" -> { <<T("while"), N("value"), N("block")>> }
      [] nt = "from" -> { <<T("from"), N("value"), T("to"), N("value"), N("block")>>,
                          <<T("from"), N("value"), T("through"), N("value"), T("step"), N("value"), T(","), N("ident"), N("block")>>,
                          <<T("from"), N("value"), T("to"), N("value"), T(","), N("ident"), N("block")>> }
      [] nt = "class" -> { <<T("class"), N("ident"), T("{"), T("}")>>, <<T("class"), N("ident"), T("{"), N("members"), T("}")>>,
                           <<T("export"), T("class"), N("ident"), T("{"), N("members"), T("}")>> }
      [] nt = "members" -> { <<N("member")>>, <<N("member"), N("members")>> }
      [] nt = "member" -> { <<N("ident"), T(":"), N("type")>>, <<T("constructor"), T("("), N("params"), T(")"), N("block")>>,
                            <<T("fn"), N("ident"), T("("), N("params"), T(")"), N("block")>>,
                            <<T("fn"), N("ident"), T("("), N("params"), T(")"), T("->"), N("type"), N("block")>>, <<N("ident")>> }
      [] nt = "import" -> { <<T("import"), N("ident")>>, <<T("import"), N("ident"), T("from"), N("ident")>>, <<T("import"), T("./"), N("ident")>>,
                            <<T("import"), T("type"), N("ident"), T("from"), N("ident")>>, <<T("import"), T("../"), N("ident")>> }
      [] nt = "typealias" -> { <<T("type"), N("ident"), N("type")>>, <<T("export"), T("type"), N("ident"), N("type")>> }

Shortest(nt) == CHOOSE p \in P(nt) : \A q \in P(nt) : Len(p) <= Len(q)

VARIABLES form, budget
gvars == <<form, budget>>
GInit == form = <<N("file")>> /\ budget = Budget
FirstN == LET hits == {k \in 1..Len(form) : IsN(form[k])} IN IF hits = {} THEN 0 ELSE CHOOSE k \in hits : \A j \in hits : k <= j
Expand == LET k == FirstN IN
          /\ k # 0
          /\ \E p \in (IF budget > 0 THEN P(form[k].n) ELSE {Shortest(form[k].n)}) :
               form' = SubSeq(form, 1, k - 1) \o p \o SubSeq(form, k + 1, Len(form))
          /\ budget' = IF budget > 0 THEN budget - 1 ELSE 0
GNext == Expand
EmitDerived == FirstN = 0 => PrintT("CASE " \o ToJson([kind |-> "derived", toks |-> [k \in 1..Len(form) |-> form[k].t]]))

-----------------------------------------------------------------------------
(* token-edit machine *)
Corpus == ndJsonDeserialize(IOEnv.TOKENS)        \* sequence of [id, toks]
Vocabulary == {"(", ")", "{", "}", "[", "]", ",", ":", ".", "=", "==", "+", "-", "*", "/", "?", "?=", "->", "...", "\"", "fn", "if", "else",
               "while", "from", "to", "step", "return ", "print ", "class", "self", "Self", "nil", "get ", "or ", "import", "export", "const",
               "modify", "type", "typeof ", "map", "constructor", "int", "str", "x", "0", "1.5", "B", "0b", "is ", "!", "&&", "break", "continue"}
VARIABLES src, toks, edits
evars == <<src, toks, edits>>
EInit == \E k \in 1..Len(Corpus) : src = k /\ toks = Corpus[k].toks /\ edits = 0
Delete(p) == toks' = SubSeq(toks, 1, p - 1) \o SubSeq(toks, p + 1, Len(toks))
Duplicate(p) == toks' = SubSeq(toks, 1, p) \o SubSeq(toks, p, Len(toks))
Replace(p, w) == toks' = [toks EXCEPT ![p] = w]
Insert(p, w) == toks' = SubSeq(toks, 1, p) \o <<w>> \o SubSeq(toks, p + 1, Len(toks))
Swap(p) == p < Len(toks) /\ toks' = [toks EXCEPT ![p] = toks[p + 1], ![p + 1] = toks[p]]
ENext == /\ edits < MaxEdits /\ toks # <<>>
         /\ \E p \in 1..Len(toks) : \/ Delete(p) \/ Duplicate(p) \/ Swap(p)
                                     \/ (UseVocab /\ \E w \in Vocabulary : Replace(p, w) \/ Insert(p, w))
         /\ edits' = edits + 1 /\ src' = src
(* simulation variant: one random edit per step (the full successor set is too large to enumerate) *)
ENextSim == /\ edits < MaxEdits /\ toks # <<>>
            /\ \E p \in {RandomElement(1..Len(toks))}, w \in {RandomElement(Vocabulary)}, k \in {RandomElement(1..5)} :
                 CASE k = 1 -> Delete(p) [] k = 2 -> Duplicate(p) [] k = 3 -> Replace(p, w) [] k = 4 -> Insert(p, w)
                   [] k = 5 -> (IF p < Len(toks) THEN Swap(p) ELSE Delete(p))
            /\ edits' = edits + 1 /\ src' = src
EmitEdited == edits > 0 => PrintT("CASE " \o ToJson([kind |-> "edited", src |-> Corpus[src].id, toks |-> toks]))

(* the two machines are run separately; the unused machine's variables are parked *)
InitD == GInit /\ src = 0 /\ toks = <<>> /\ edits = 0
NextD == GNext /\ UNCHANGED evars
InitE == EInit /\ form = <<>> /\ budget = 0
NextE == ENext /\ UNCHANGED gvars
NextESim == ENextSim /\ UNCHANGED gvars
=============================================================================
