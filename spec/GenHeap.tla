------------------------------- MODULE GenHeap -------------------------------
(* Generator for C13: histories of list / map operations over three variables  *)
(* (two containers and an alias that can be re-pointed or cloned).  After every *)
(* operation every variable is observed.  BFS = all histories up to MaxLen,      *)
(* -simulate = long random histories.                                            *)
EXTENDS Ast, TLC, Json, IOUtils

CONSTANTS MaxLen, Modes

VARIABLES mode, ty, hist
vars == <<mode, ty, hist>>

LVars == {"a", "b", "c"}
IdxKinds == {"m1", "zero", "last", "len"}
ListOps ==
    [op : {"push", "reverse", "clear", "map", "filter", "len", "indexof_hit", "indexof_miss", "concat", "inner", "filterto", "mapto"}, x : LVars]
    \cup [op : {"remove", "read", "set", "opset", "opsub", "seteq"}, x : LVars, i : IdxKinds]
    \cup [op : {"join", "eq", "joinalias"}, x : {"a", "b"}, y : LVars] \cup [op : {"join", "eq"}, x : {"c"}, y : LVars]
    \cup [op : {"alias", "clone"}, y : {"a", "b"}]          \* c = y   /   c = y.clone()
    \cup [op : {"litfrom", "mapfrom", "eqboxed", "filterview"}, x : {"a"}]  \* c = [a[0], a[1]] / c = [0].map(fn(i) { return a[i] }): elements copied, not aliased

MVars == {"m", "e", "n"}
Keys == {"k1", "k2", "k3"}
MapOps ==
    [op : {"mset", "mread", "mopset", "replace", "mremove", "contains", "msub"}, x : MVars, k : Keys]
    \cup [op : {"mlen", "mclear"}, x : MVars]
    \cup [op : {"malias", "mclone"}, y : {"m", "e"}]
    \cup [op : {"mlitfrom"}]          \* n = map literal whose value is read from a list element, then that element is overwritten

Ops == IF mode = "list" THEN ListOps ELSE MapOps

Init == mode \in Modes /\ ty \in (IF mode = "list" THEN {"int", "str", "opt", "nest"} ELSE {"int", "opt"}) /\ hist = <<>>
Next == /\ Len(hist) < MaxLen
        /\ \E o \in Ops : hist' = Append(hist, o)
        /\ UNCHANGED <<mode, ty>>

-----------------------------------------------------------------------------
ElemTy == CASE ty = "int" -> "int" [] ty = "str" -> "str" [] ty = "opt" -> "int?" [] ty = "nest" -> "[int...]"
LTy == "[" \o ElemTy \o "...]"
Val(n) == CASE ty = "int" -> I(n)
            [] ty = "str" -> S("s" \o ToString(n))
            [] ty = "opt" -> IF n % 2 = 0 THEN I(n) ELSE Nil
            [] ty = "nest" -> List(<<I(n)>>)          \* inside a typed list literal
(* a value in argument position: nested lists go through a typed temporary (a bare `[n]` is a fixed-shape list) *)
Pre(n) == IF ty = "nest" THEN <<LetT("t" \o ToString(n), "[int...]", List(<<I(n)>>))>> ELSE <<>>
Arg(n) == IF ty = "nest" THEN V("t" \o ToString(n)) ELSE Val(n)
MapFn == CASE ty = "int" -> Fn("dbl", <<P("q", "int")>>, "int", <<Ret(Bin("*", V("q"), I(2)))>>)
           [] ty = "str" -> Fn("dbl", <<P("q", "str")>>, "str", <<Ret(Bin("+", V("q"), S("!")))>>)
           [] ty = "opt" -> Fn("dbl", <<P("q", "int?")>>, "int", <<Ret(Or(V("q"), I(0)))>>)
           [] ty = "nest" -> Fn("dbl", <<P("q", "[int...]")>>, "int", <<Ret(MCall(V("q"), "len", <<>>))>>)
FilterFn == CASE ty = "int" -> Fn("big", <<P("q", "int")>>, "bool", <<Ret(Bin(">", V("q"), I(2)))>>)
              [] ty = "str" -> Fn("big", <<P("q", "str")>>, "bool", <<Ret(Bin("!=", V("q"), S("s2")))>>)
              [] ty = "opt" -> Fn("big", <<P("q", "int?")>>, "bool", <<Ret(Bin("!=", V("q"), Nil))>>)
              [] ty = "nest" -> Fn("big", <<P("q", "[int...]")>>, "bool", <<Ret(Bin(">", MCall(V("q"), "len", <<>>), I(1)))>>)

IdxExpr(x, i) == CASE i = "m1" -> I(-1) [] i = "zero" -> I(0)
                   [] i = "last" -> Bin("-", MCall(V(x), "len", <<>>), I(1))
                   [] i = "len" -> MCall(V(x), "len", <<>>)

ObserveL == <<Print(V("a")), Print(V("b")), Print(V("c"))>>

ListStmts(o, n) ==
    CASE o.op = "push" -> Pre(10 + n) \o <<ExprS(MCall(V(o.x), "push", <<Arg(10 + n)>>))>>
      \* reach into the first element: for nested lists this mutates a list that the other variables may share
      [] o.op = "inner" -> IF ty = "nest" THEN <<Let("k", I(0)), Let("inr", Idx(V(o.x), V("k"))), ExprS(MCall(V("inr"), "push", <<I(70 + n)>>))>>
                           ELSE <<Let("k", I(0)), Let("inr", Idx(V(o.x), V("k"))), Print(V("inr"))>>
      [] o.op = "reverse" -> <<ExprS(MCall(V(o.x), "reverse", <<>>))>>
      [] o.op = "clear" -> <<ExprS(MCall(V(o.x), "clear", <<>>))>>
      [] o.op = "map" -> <<Print(MCall(V(o.x), "map", <<MapFn>>))>>
      [] o.op = "filter" -> <<Print(MCall(V(o.x), "filter", <<FilterFn>>))>>
      \* c = x.filter(f) / x.map(f): a new list, also when x is empty - later writes to either must not show in the other
      [] o.op = "filterto" -> <<Let("c", MCall(V(o.x), "filter", <<FilterFn>>))>>
      [] o.op = "mapto" -> IF ty \in {"int", "str"} THEN <<Let("c", MCall(V(o.x), "map", <<MapFn>>))>>
                           ELSE <<Let("c", MCall(V(o.x), "filter", <<Fn("all", <<P("q", ElemTy)>>, "bool", <<Ret(B(TRUE))>>)>>))>>
      [] o.op = "len" -> <<Print(MCall(V(o.x), "len", <<>>))>>
      [] o.op = "indexof_hit" -> Pre(2) \o <<Print(MCall(V(o.x), "index_of", <<Arg(2)>>))>>
      [] o.op = "indexof_miss" -> Pre(98) \o <<Print(MCall(V(o.x), "index_of", <<Arg(98)>>))>>
      [] o.op = "concat" -> <<Print(Bin("+", Bin("+", S("n="), MCall(V(o.x), "len", <<>>)), S(";")))>>
      [] o.op = "remove" -> <<Let("k", IdxExpr(o.x, o.i)), Print(MCall(V(o.x), "remove", <<V("k")>>))>>
      [] o.op = "read" -> <<Let("k", IdxExpr(o.x, o.i)), Print(Idx(V(o.x), V("k")))>>
      [] o.op = "set" -> Pre(20 + 2 * n) \o <<Let("k", IdxExpr(o.x, o.i)), Assign(Idx(V(o.x), V("k")), "=", Arg(20 + 2 * n))>>
      [] o.op = "opset" -> Pre(21 + 2 * n) \o <<Let("k", IdxExpr(o.x, o.i)),
                             IF ty \in {"opt", "nest"} THEN Assign(Idx(V(o.x), V("k")), "=", Arg(21 + 2 * n))
                             ELSE Assign(Idx(V(o.x), V("k")), "+", IF ty = "int" THEN I(5) ELSE S("z"))>>
      \* a non-commutative op-assignment on an element
      [] o.op = "opsub" -> IF ty = "int" THEN <<Let("k", IdxExpr(o.x, o.i)), Assign(Idx(V(o.x), V("k")), "-", I(3))>>
                           ELSE <<Let("k", IdxExpr(o.x, o.i)), Print(Idx(V(o.x), V("k")))>>
      \* a slot is overwritten with a *different* list of *equal* contents: from then on the slot is that list (written through
      \* afterwards); for scalar elements: the value it already holds
      [] o.op = "seteq" -> IF ty = "nest"
                           THEN <<Let("k", IdxExpr(o.x, o.i)), Let("inr", Idx(V(o.x), V("k"))), Let("eqc", MCall(V("inr"), "clone", <<>>)),
                                  Assign(Idx(V(o.x), V("k")), "=", V("eqc")), ExprS(MCall(V("eqc"), "push", <<I(90 + n)>>))>>
                           ELSE <<Let("k", IdxExpr(o.x, o.i)), Let("inr", Idx(V(o.x), V("k"))), Assign(Idx(V(o.x), V("k")), "=", V("inr"))>>
      [] o.op = "join" -> <<Print(MCall(V(o.x), "join", <<V(o.y)>>))>>
      \* the result of join *is* the receiver: c becomes an alias of x
      [] o.op = "joinalias" -> <<Let("c", MCall(V(o.x), "join", <<V(o.y)>>)), Print(Bin("is", V("c"), V(o.x)))>>
      [] o.op = "eq" -> <<Print(Bin("==", V(o.x), V(o.y)))>>
      [] o.op = "alias" -> <<Let("c", V(o.y))>>
      [] o.op = "clone" -> <<Let("c", MCall(V(o.y), "clone", <<>>))>>
      \* the mapped list holds the values read from a, not views of a's slots
      [] o.op = "mapfrom" -> <<LetT("pos", "[int...]", List(<<I(0)>>)),
                               Let("c", MCall(V("pos"), "map", <<Fn("pick", <<P("q", "int")>>, ElemTy, <<Ret(Idx(V("a"), V("q")))>>)>>))>>
      \* a list holding a boxed optional (the result of a built-in) equals the list holding the plain value
      [] o.op = "eqboxed" -> IF ty = "opt"
                             THEN <<LetT("hs", "[int...]", List(<<I(7), I(2)>>)),
                                    LetT("bxl", LTy, List(<<MCall(V("hs"), "index_of", <<I(2)>>), MCall(V("hs"), "index_of", <<I(99)>>)>>)),
                                    LetT("pll", LTy, List(<<I(1), Nil>>)),
                                    Print(Bin("==", V("bxl"), V("pll"))), Print(Bin("!=", V("bxl"), V("pll"))),
                                    Print(MCall(V("pll"), "index_of", <<MCall(V("hs"), "index_of", <<I(2)>>)>>))>>
                             ELSE <<Print(Bin("==", V("a"), V("a")))>>
      \* the predicate answers with a bool it reads out of a list element / an object-like slot (what comes back is a view)
      [] o.op = "filterview" -> <<LetT("keepf", "[bool...]", List(<<B(TRUE), B(FALSE), B(TRUE)>>)), LetT("posf", "[int...]", List(<<I(0), I(1), I(2)>>)),
                                  Print(MCall(V("posf"), "filter", <<Fn("kv", <<P("q", "int")>>, "bool", <<Ret(Idx(V("keepf"), V("q")))>>)>>)),
                                  Print(MCall(V("posf"), "filter", <<Fn("kn", <<P("q", "int")>>, "bool", <<Ret(Not(Idx(V("keepf"), V("q"))))>>)>>))>>
      [] o.op = "litfrom" -> <<Let("z0", I(0)), Let("z1", I(1)),
                               LetT("c", LTy, List(<<Idx(V("a"), V("z0")), Idx(V("a"), V("z1"))>>))>>

ListPrologue == <<LetT("a", LTy, List(<<Val(1), Val(2), Val(3)>>)),
                  LetT("b", LTy, List(<<>>)),
                  LetT("c", LTy, V("a")),
                  Let("k", I(0))>>

-----------------------------------------------------------------------------
MTy == IF ty = "opt" THEN "map[str, int?]" ELSE "map[str, int]"
MVal(n) == IF ty = "opt" /\ n % 2 = 1 THEN Nil ELSE I(n)       \* optional-valued maps store nil under some keys
ShowM == Fn("showm", <<P("x", MTy)>>, "int",
            <<Print(MCall(V("x"), "len", <<>>)),
              Print(MCall(MCall(V("x"), "keys", <<>>), "len", <<>>)),
              Print(MCall(MCall(V("x"), "values", <<>>), "len", <<>>)),
              Print(MCall(MCall(V("x"), "pairs", <<>>), "len", <<>>)),
              IfElse(MCall(V("x"), "contains_key", <<S("k1")>>), <<Print(Idx(V("x"), S("k1")))>>, <<Print(S("-"))>>),
              IfElse(MCall(V("x"), "contains_key", <<S("k2")>>), <<Print(Idx(V("x"), S("k2")))>>, <<Print(S("-"))>>),
              IfElse(MCall(V("x"), "contains_key", <<S("k3")>>), <<Print(Idx(V("x"), S("k3")))>>, <<Print(S("-"))>>),
              Print(Bin("!=", MCall(MCall(V("x"), "keys", <<>>), "index_of", <<S("k2")>>), Nil)),
              Ret(I(0))>>)
ObserveM == <<ExprS(Call(V("showm"), <<V("m")>>)), ExprS(Call(V("showm"), <<V("e")>>)), ExprS(Call(V("showm"), <<V("n")>>))>>
MapLit(kvs) == [k |-> "map", kt |-> "str", vt |-> (IF ty = "opt" THEN "int?" ELSE "int"), kvs |-> kvs, braces |-> TRUE]
KV(k, v) == [key |-> S(k), val |-> MVal(v)]
MapPrologue == <<Let("showm", ShowM), LetT("src", "[int...]", List(<<I(4), I(6)>>)), Let("z0", I(0)),
                 Let("m", MapLit(IF ty = "opt" THEN <<>> ELSE <<KV("k1", 1), KV("k2", 2)>>))>>
               \o (IF ty = "opt" THEN <<Assign(Idx(V("m"), S("k1")), "=", Nil), Assign(Idx(V("m"), S("k2")), "=", I(2))>> ELSE <<>>)
               \o <<
                 Let("e", MapLit(<<>>)),
                 Let("n", V("m"))>>
MapStmts(o, n) ==
    CASE o.op = "mset" -> <<Assign(Idx(V(o.x), S(o.k)), "=", MVal(30 + n))>>
      [] o.op = "mread" -> <<IfElse(MCall(V(o.x), "contains_key", <<S(o.k)>>), <<Print(Idx(V(o.x), S(o.k)))>>, <<Print(S("absent"))>>)>>
      [] o.op = "mopset" -> IF ty = "opt" THEN <<Assign(Idx(V(o.x), S(o.k)), "=", Nil)>>
                            ELSE <<If(MCall(V(o.x), "contains_key", <<S(o.k)>>), <<Assign(Idx(V(o.x), S(o.k)), "+", I(100))>>)>>
      [] o.op = "msub" -> IF ty = "opt" THEN <<Print(MCall(V(o.x), "contains_key", <<S(o.k)>>))>>
                          ELSE <<If(MCall(V(o.x), "contains_key", <<S(o.k)>>), <<Assign(Idx(V(o.x), S(o.k)), "-", I(7))>>)>>
      [] o.op = "replace" -> <<Print(MCall(V(o.x), "replace", <<S(o.k), MVal(50 + n)>>))>>
      [] o.op = "mremove" -> <<Print(MCall(V(o.x), "remove", <<S(o.k)>>))>>
      [] o.op = "contains" -> <<Print(MCall(V(o.x), "contains_key", <<S(o.k)>>))>>
      [] o.op = "mlen" -> <<Print(MCall(V(o.x), "len", <<>>))>>
      [] o.op = "mclear" -> <<ExprS(MCall(V(o.x), "clear", <<>>))>>
      \* (a literal of `map[str, int?]` does not take an `int` element: there the operation only re-points n)
      [] o.op = "mlitfrom" -> IF ty = "opt" THEN <<Let("n", MapLit(<<>>))>>
                              ELSE <<Let("n", MapLit(<<[key |-> S("k1"), val |-> Idx(V("src"), V("z0"))]>>)),
                                     Assign(Idx(V("src"), V("z0")), "=", I(110 + 2 * n))>>
      [] o.op = "malias" -> <<Let("n", V(o.y))>>
      [] o.op = "mclone" -> <<Let("n", MCall(V(o.y), "clone", <<>>))>>

RECURSIVE Steps(_, _)
Steps(h, n) == IF n > Len(h) THEN <<>>
               ELSE (IF mode = "list" THEN ListStmts(h[n], n) \o ObserveL ELSE MapStmts(h[n], n) \o ObserveM)
                    \o Steps(h, n + 1)
Body(h) == (IF mode = "list" THEN ListPrologue \o ObserveL ELSE MapPrologue \o ObserveM) \o Steps(h, 1) \o <<Print(S("end"))>>

(* two-phase use: enumerate histories only (EmitLight), let the harness pick a sample, *)
(* then expand the selected histories into programs (InitSel + EmitCase)               *)
EmitLight == hist # <<>> => PrintT("CASE " \o ToJson([mode |-> mode, ty |-> ty, hist |-> hist]))
Selected == ndJsonDeserialize(IOEnv.SELECT)
InitSel == \E i \in 1..Len(Selected) : mode = Selected[i].mode /\ ty = Selected[i].ty /\ hist = Selected[i].hist
Stutter == UNCHANGED vars

EmitCase == hist # <<>> => PrintT("CASE " \o ToJson([mode |-> mode, ty |-> ty, hist |-> hist, prog |-> [body |-> Body(hist)]]))
=============================================================================
