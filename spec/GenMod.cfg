CONSTANT MaxMods = 3
CONSTANT MinMods = 2
CONSTANT Spells <- AllSpells
CONSTANT Places <- AllPlaces
INIT Init
NEXT Next
INVARIANT EmitCase
