CONSTANT MaxMods = 3
INIT Init
NEXT Next
INVARIANT EmitCase
