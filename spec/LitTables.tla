------------------------------ MODULE LitTables ------------------------------
EXTENDS Integers
(* Numeric literals of the four kinds (non-negative: a sign is an operator of the tree), with *)
(* their source text.  Data generated once; floats are given exactly as m * 2^e.              *)
Lits == <<[k |-> "lit", kind |-> "int", dec |-> "0", src |-> "0", cls |-> "fin", neg |-> FALSE, m |-> "0", e |-> 0],
         [k |-> "lit", kind |-> "int", dec |-> "1", src |-> "1", cls |-> "fin", neg |-> FALSE, m |-> "0", e |-> 0],
         [k |-> "lit", kind |-> "int", dec |-> "2", src |-> "2", cls |-> "fin", neg |-> FALSE, m |-> "0", e |-> 0],
         [k |-> "lit", kind |-> "int", dec |-> "7", src |-> "7", cls |-> "fin", neg |-> FALSE, m |-> "0", e |-> 0],
         [k |-> "lit", kind |-> "int", dec |-> "31", src |-> "31", cls |-> "fin", neg |-> FALSE, m |-> "0", e |-> 0],
         [k |-> "lit", kind |-> "int", dec |-> "32", src |-> "32", cls |-> "fin", neg |-> FALSE, m |-> "0", e |-> 0],
         [k |-> "lit", kind |-> "int", dec |-> "255", src |-> "255", cls |-> "fin", neg |-> FALSE, m |-> "0", e |-> 0],
         [k |-> "lit", kind |-> "int", dec |-> "65536", src |-> "65536", cls |-> "fin", neg |-> FALSE, m |-> "0", e |-> 0],
         [k |-> "lit", kind |-> "int", dec |-> "2147483647", src |-> "2147483647", cls |-> "fin", neg |-> FALSE, m |-> "0", e |-> 0],
         [k |-> "lit", kind |-> "bigint", dec |-> "0", src |-> "B0", cls |-> "fin", neg |-> FALSE, m |-> "0", e |-> 0],
         [k |-> "lit", kind |-> "bigint", dec |-> "1", src |-> "B1", cls |-> "fin", neg |-> FALSE, m |-> "0", e |-> 0],
         [k |-> "lit", kind |-> "bigint", dec |-> "4294967296", src |-> "B4294967296", cls |-> "fin", neg |-> FALSE, m |-> "0", e |-> 0],
         [k |-> "lit", kind |-> "bigint", dec |-> "9223372036854775808", src |-> "B9223372036854775808", cls |-> "fin", neg |-> FALSE, m |-> "0", e |-> 0],
         [k |-> "lit", kind |-> "bigint", dec |-> "170141183460469231731687303715884105727", src |-> "B170141183460469231731687303715884105727", cls |-> "fin", neg |-> FALSE, m |-> "0", e |-> 0],
         [k |-> "lit", kind |-> "byte", dec |-> "0", src |-> "0b0", cls |-> "fin", neg |-> FALSE, m |-> "0", e |-> 0],
         [k |-> "lit", kind |-> "byte", dec |-> "1", src |-> "0b1", cls |-> "fin", neg |-> FALSE, m |-> "0", e |-> 0],
         [k |-> "lit", kind |-> "byte", dec |-> "2", src |-> "0b10", cls |-> "fin", neg |-> FALSE, m |-> "0", e |-> 0],
         [k |-> "lit", kind |-> "byte", dec |-> "128", src |-> "0b10000000", cls |-> "fin", neg |-> FALSE, m |-> "0", e |-> 0],
         [k |-> "lit", kind |-> "byte", dec |-> "255", src |-> "0b11111111", cls |-> "fin", neg |-> FALSE, m |-> "0", e |-> 0],
         [k |-> "lit", kind |-> "float", dec |-> "0", src |-> "0.0", cls |-> "fin", neg |-> FALSE, m |-> "0", e |-> 0],
         [k |-> "lit", kind |-> "float", dec |-> "0", src |-> "0.5", cls |-> "fin", neg |-> FALSE, m |-> "4503599627370496", e |-> -53],
         [k |-> "lit", kind |-> "float", dec |-> "0", src |-> "1.5", cls |-> "fin", neg |-> FALSE, m |-> "6755399441055744", e |-> -52],
         [k |-> "lit", kind |-> "float", dec |-> "0", src |-> "2.0", cls |-> "fin", neg |-> FALSE, m |-> "4503599627370496", e |-> -51],
         [k |-> "lit", kind |-> "float", dec |-> "0", src |-> "0.1", cls |-> "fin", neg |-> FALSE, m |-> "7205759403792794", e |-> -56],
         [k |-> "lit", kind |-> "float", dec |-> "0", src |-> "3.0", cls |-> "fin", neg |-> FALSE, m |-> "6755399441055744", e |-> -51],
         [k |-> "lit", kind |-> "float", dec |-> "0", src |-> "1000000000000000.0", cls |-> "fin", neg |-> FALSE, m |-> "8000000000000000", e |-> -3],
         [k |-> "lit", kind |-> "float", dec |-> "0", src |-> "4294967296.5", cls |-> "fin", neg |-> FALSE, m |-> "4503599627894784", e |-> -20],
         \* an unsuffixed literal beyond the int range is a bigint (its negation is *not* the int minimum)
         [k |-> "lit", kind |-> "bigint", dec |-> "2147483648", src |-> "2147483648", cls |-> "fin", neg |-> FALSE, m |-> "0", e |-> 0],
         \* 1e200 written out in digits: its square is not a finite double (the result is outside the tower model: the judge then
         \* only asks that the folded, the unfolded and the half-folded renderings give the same answer)
         [k |-> "lit", kind |-> "float", dec |-> "0", src |-> "100000000000000000000000000000000000000000000000000000000000000000000000000000000000000000000000000000000000000000000000000000000000000000000000000000000000000000000000000000000000000000000000000000000.0", cls |-> "fin", neg |-> FALSE, m |-> "5883593420661338", e |-> 612]>>
IntLits == 1..9
BigLits == (10..14) \cup {28}
ByteLits == 15..19
FloatLits == (20..27) \cup {29}
=============================================================================
