-------------------------------- MODULE MSTypes --------------------------------
(* The part of the static type discipline that C02/C03 rely on: a universe of type *)
(* terms, their dynamic kinds, and a three-valued compatibility relation.  Only    *)
(* `MustNot` pairs are used as faults, only `Must` pairs in accepted twins;         *)
(* `Unspecified` pairs (numeric widening, fixed vs open lists, ...) are never used. *)
EXTENDS Integers, Sequences, TLC

Types == {"int", "str", "bool", "float", "[int...]", "fn() -> int", "Box", "int?", "str?"}
(* an expression of each type, as source text (names are declared by the program prologue) *)
Sample(t) == CASE t = "int" -> "7" [] t = "str" -> "\"s\"" [] t = "bool" -> "true" [] t = "float" -> "1.5"
               [] t = "[int...]" -> "ilist" [] t = "fn() -> int" -> "ifn" [] t = "Box" -> "Box()" [] t = "int?" -> "iopt" [] t = "str?" -> "sopt"
Category(t) == CASE t \in {"int", "float"} -> "number" [] t = "str" -> "str" [] t = "bool" -> "bool" [] t = "[int...]" -> "list"
                 [] t = "fn() -> int" -> "fn" [] t = "Box" -> "object" [] t = "int?" -> "opt-number" [] t = "str?" -> "opt-str"
(* may a value of static type `supplied` be used where `expected` is declared? *)
Assignable(expected, supplied) ==
    IF expected = supplied THEN "Must"
    ELSE IF expected = "int?" /\ supplied = "int" THEN "Must"
    ELSE IF expected = "str?" /\ supplied = "str" THEN "Must"
    ELSE IF Category(expected) = "number" /\ Category(supplied) = "number" THEN "Unspecified"
    ELSE IF expected \in {"int?", "str?"} /\ supplied \in {"int?", "str?"} THEN "MustNot"
    ELSE IF expected = "int" /\ supplied = "int?" THEN "MustNot"      \* an optional must be unwrapped first
    ELSE IF expected = "str" /\ supplied = "str?" THEN "MustNot"
    ELSE IF expected = "int?" /\ supplied = "float" THEN "Unspecified"
    ELSE "MustNot"
(* dynamic kinds (as reported by the typed-print hook) that inhabit a static type *)
Kinds(t) == CASE t = "int" -> {"Int"} [] t = "float" -> {"Float"} [] t = "str" -> {"Str"} [] t = "bool" -> {"Bool"}
              [] t = "bigint" -> {"BigInt"} [] t = "byte" -> {"Byte"}
              [] t = "[int...]" -> {"Vector"} [] t = "fn() -> int" -> {"Function"} [] t = "Box" -> {"Object"}
              [] t = "int?" -> {"Int", "Nil", "Optional<Int>"} [] t = "str?" -> {"Str", "Nil", "Optional<Str>"}
              [] OTHER -> {}
(* operators: which operand categories are definitely unsupported *)
OpUnsupported(op, l, r) ==
    CASE op = "-" -> Category(l) \in {"str", "bool", "list", "fn", "object"} \/ Category(r) \in {"str", "bool", "list", "fn", "object"}
      [] op = "+" -> (Category(l) \in {"bool", "fn", "object"} /\ Category(r) # "str") \/ (Category(r) \in {"bool", "fn", "object"} /\ Category(l) # "str")
      [] op = "&&" -> Category(l) # "bool" \/ Category(r) # "bool"
      [] op = "<" -> Category(l) \in {"str", "bool", "list", "fn", "object"} \/ Category(r) \in {"str", "bool", "list", "fn", "object"}
      [] OTHER -> FALSE
=============================================================================
