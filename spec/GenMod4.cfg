CONSTANT MaxMods = 4
CONSTANT MinMods = 4
CONSTANT Spells <- OnePlain
CONSTANT Places <- OneEarly
INIT Init
NEXT Next
INVARIANT EmitCase
