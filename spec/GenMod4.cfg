CONSTANT MaxMods = 4
CONSTANT MinMods = 4
CONSTANT Spells <- OnePlain
CONSTANT Places <- OneEarly
CONSTANT Agains <- NoAgain
CONSTANT Layouts <- NoSub
INIT Init
NEXT Next
INVARIANT EmitCase
