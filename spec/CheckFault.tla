------------------------------ MODULE CheckFault ------------------------------
(* Judge for C03: the program with the type-breaking edit must be rejected by the  *)
(* compiler, with a diagnostic that names the faulted file and the line of the     *)
(* edit, before anything runs; its well-typed twin must compile and run.           *)
EXTENDS Integers, Sequences, TLC, Json, IOUtils
Cases == ndJsonDeserialize(IOEnv.CASES)
VARIABLE i
Init == i \in 1..Len(Cases)
Next == UNCHANGED i
Rejected(c) == c.bad.exit # 0 /\ c.bad.compile_error /\ ~c.bad.started
Located(c) == \E k \in 1..Len(c.bad.diags) : c.bad.diags[k].file = c.fault_file /\ c.bad.diags[k].line = c.fault_line
TwinRuns(c) == c.good.exit = 0 /\ c.good.out = <<"START", "END">>
Judge == LET c == Cases[i] IN
         /\ TwinRuns(c) \/ PrintT("TWIN " \o ToJson([id |-> c.id]))
         /\ Rejected(c) \/ PrintT("ACCEPTED " \o ToJson([id |-> c.id]))
         /\ (~Rejected(c) \/ Located(c)) \/ PrintT("POSITION " \o ToJson([id |-> c.id]))
=============================================================================
