SPECIFICATION TraceSpec
INVARIANT OutOfModelVM
INVARIANT Accepted
INVARIANT Stuck
INVARIANT Xlate
CHECK_DEADLOCK FALSE
