CONSTANT MaxMods = 3
CONSTANT MinMods = 2
CONSTANT Spells <- AllSpells
CONSTANT Places <- OneEarly
CONSTANT Agains <- NoAgain
CONSTANT Layouts <- AllLayouts
INIT Init
NEXT Next
INVARIANT EmitCase
