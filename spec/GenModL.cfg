CONSTANT MaxMods = 3
CONSTANT MinMods = 2
CONSTANT Spells <- AllSpells
CONSTANT Places <- OneEarly
CONSTANT Layouts <- AllLayouts
INIT Init
NEXT Next
INVARIANT EmitCase
