INIT Init
NEXT Next
INVARIANT Judge
