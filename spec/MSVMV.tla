------------------------------- MODULE MSVMV -------------------------------
(* The MScript bytecode machine in *value* mode: what Function::run              *)
(* (bytecode/src/function.rs), the instruction implementations                   *)
(* (bytecode/src/instruction.rs) and the shared frame stack (bytecode/src/stack.rs)*)
(* do to concrete values.  MSVM.tla is the same machine with values abstracted   *)
(* to an operand-depth interval; this module keeps them.                         *)
(*                                                                               *)
(* State of one run (a record `m`):                                              *)
(*   acts   : Seq([fi, ip, ops, sp, args, cb, drv])  activations, innermost last *)
(*            fi   index of the function in the dump F                           *)
(*            ip   instruction pointer (0-based, as in the implementation)       *)
(*            ops  local operating stack (values, top last)                      *)
(*            sp   Len(special_scopes): pushed by PushScope, popped only by done *)
(*            args arguments of the call, cb = callback state [has, m : name -> cell] *)
(*   frames : Seq([blk, vars : name -> cell])  the shared call stack; blk = the   *)
(*            label is a special scope (<if>, <else>, <while>)                    *)
(*   cells  : Seq(value)    every variable is a shared, mutable pair (Gc cell)   *)
(*   lists  : Seq(Seq(value)) vectors are shared references into this heap       *)
(*   maps   : Seq(Seq([k, v]))  maps are shared references into this heap        *)
(*   unord  : ids of lists produced by keys / values / pairs of a map: their      *)
(*            order is the implementation's hash order, which the model does not  *)
(*            prescribe (such a list is never compared as text)                   *)
(*   objs   : Seq([cls, vars : name -> cell])  objects: make_object keeps the    *)
(*            variable mapping of the frame of the class function (fields and    *)
(*            `Class::method` function values), sharing its cells               *)
(*   exports : file -> (name -> cell)  the export table of each bytecode file    *)
(*   modcache : set of `file#__module__` paths whose file has been loaded        *)
(*   out    : Seq(STRING)   lines printed; pr : Seq(value) items printed         *)
(*   st     : "run" | "halt" | "fail" | "oom"  (oom = instruction / value kind    *)
(*            outside this model: the run is not judged)                          *)
(* Values are MSLang's VInt, VBool, VStr, VNil, VList (an index into `lists`),    *)
(* machine function values [t |-> "fn", loc, cb] and array views                  *)
(* [t |-> "view", id, ix] (Primitive::HeapPrimitive: what indexing a vector       *)
(* pushes; readers look through it, ptr_mut / bin_op_assign write through it),    *)
(* lookup views [t |-> "cview", c] (what `lookup` of an object member pushes: a   *)
(* pointer to the member's cell) and objects VObj(id).                            *)
(* The code is a dump written by the real compiler / loader (hook H4).           *)
EXTENDS MSLang

NoCb == [has |-> FALSE, m |-> NoFrame]
MFn(loc, cb) == [t |-> "fn", loc |-> loc, cb |-> cb]
(* drv: a running built-in driver (vector map / filter): the activation waits at its `call` while the machine runs the
   callback once per element (RuntimeExecutionBridgeNotifier: wait_for / then / finish) *)
NoDrv == [on |-> FALSE]
Act(fi, args, cb) == [fi |-> fi, ip |-> 0, ops |-> <<>>, sp |-> 0, args |-> args, cb |-> cb, drv |-> NoDrv]
FnFrame == [blk |-> FALSE, vars |-> NoFrame]
BlkFrame == [blk |-> TRUE, vars |-> NoFrame]

Boot0(entry) == [acts |-> <<Act(entry, <<>>, NoCb)>>, frames |-> <<FnFrame>>, cells |-> <<>>, lists |-> <<>>, maps |-> <<>>, objs |-> <<>>,
                exports |-> NoFrame2, modcache |-> {}, unord |-> {},
                out |-> <<>>, pr |-> <<>>, st |-> "run", why |-> ""]

(* the entry file is loaded (and registered) before it runs *)
BootF(F, entry) == [Boot0(entry) EXCEPT !.modcache = {F[entry].qn}]

-----------------------------------------------------------------------------
(* decimal literals of instruction arguments, inside TLC's 32-bit integers *)
DigitOf(c) == CASE c = "0" -> 0 [] c = "1" -> 1 [] c = "2" -> 2 [] c = "3" -> 3 [] c = "4" -> 4
                [] c = "5" -> 5 [] c = "6" -> 6 [] c = "7" -> 7 [] c = "8" -> 8 [] c = "9" -> 9
                [] OTHER -> -1
RECURSIVE LeqDec(_, _, _)
LeqDec(s, u, i) == IF i > Len(s) THEN TRUE            \* same length: s <= u as decimal numerals
                   ELSE IF DigitOf(SubSeq(s, i, i)) < DigitOf(SubSeq(u, i, i)) THEN TRUE
                   ELSE IF DigitOf(SubSeq(s, i, i)) > DigitOf(SubSeq(u, i, i)) THEN FALSE ELSE LeqDec(s, u, i + 1)
IsDigits(s) == /\ Len(s) \in 1..10 /\ \A i \in 1..Len(s) : DigitOf(SubSeq(s, i, i)) >= 0
               /\ (Len(s) = 10 => LeqDec(s, "2147483647", 1))
RECURSIVE DigitsVal(_, _)
DigitsVal(s, n) == IF n = 0 THEN 0 ELSE DigitsVal(s, n - 1) * 10 + DigitOf(SubSeq(s, n, n))
IsLit(s) == IF Len(s) > 1 /\ SubSeq(s, 1, 1) = "-" THEN IsDigits(SubSeq(s, 2, Len(s))) ELSE IsDigits(s)
LitVal(s) == IF SubSeq(s, 1, 1) = "-" THEN 0 - DigitsVal(SubSeq(s, 2, Len(s)), Len(s) - 1) ELSE DigitsVal(s, Len(s))

-----------------------------------------------------------------------------
(* the other numeric kinds (Primitive::BigInt / Byte / Float): values of MSNum's exact tower, boxed as          *)
(* [t |-> "num", n |-> [kind, z] | [kind |-> "float", f]].  The machine's own VInt stays a TLC integer; a binary *)
(* operator with a boxed operand is MSNum!Arith on the promoted kinds, and a result of kind int / bool comes back *)
(* as VInt / VBool.                                                                                              *)
N == INSTANCE MSNum
VNum(x) == [t |-> "num", n |-> x]
SmallZ(v) == IF v = (0 - 2147483647) - 1 THEN [neg |-> TRUE, mag |-> <<3648, 4748, 21>>]
             ELSE [neg |-> v < 0, mag |-> N!NatOfSmall(IF v < 0 THEN 0 - v ELSE v)]
ZSmall(z) == LET l(i) == IF i <= Len(z.mag) THEN z.mag[i] ELSE 0 IN
             IF z.neg THEN ((0 - l(3) * 100000000) - l(2) * 10000) - l(1) ELSE (l(3) * 100000000 + l(2) * 10000) + l(1)
ToNum(v) == IF v.t = "int" THEN N!VI("int", SmallZ(v.v)) ELSE v.n
OfNum(x) == IF x.kind = "int" THEN VInt(ZSmall(x.z)) ELSE IF x.kind = "bool" THEN VBool(x.b) ELSE VNum(x)
NumOp(op) == IF op = "^" THEN "xor" ELSE IF op = "=" THEN "==" ELSE op
NumBin(op, l, r) == N!Arith(NumOp(op), ToNum(l), ToNum(r))       \* [ok, oom, v | why]
AllDigits(s) == Len(s) >= 1 /\ \A i \in 1..Len(s) : DigitOf(SubSeq(s, i, i)) >= 0
(* make_float "12.5": [digits] . [digits]; other spellings are not modelled *)
DotAt(s) == LET hits == {k \in 1..Len(s) : SubSeq(s, k, k) = "."} IN IF Cardinality(hits) = 1 THEN CHOOSE k \in hits : TRUE ELSE 0
RECURSIVE P10(_)
P10(n) == IF n = 0 THEN <<1>> ELSE N!NatMulSmall(P10(n - 1), 10)
FloatOfText(s) == LET d == DotAt(s)
                      ip == IF d = 0 THEN s ELSE SubSeq(s, 1, d - 1)
                      fp == IF d = 0 THEN "" ELSE SubSeq(s, d + 1, Len(s)) IN
                  IF ~AllDigits(ip \o fp) \/ Len(ip \o fp) > 400 THEN [ok |-> FALSE]
                  ELSE N!RoundRat(FALSE, N!NatOfDec(ip \o fp), P10(Len(fp)), 0)
(* Display of a byte: 0b followed by its binary digits without leading zeros *)
RECURSIVE BinText(_, _, _)
BinText(bs, k, started) == IF k = 0 THEN (IF started THEN "" ELSE "0")
                           ELSE IF bs[k] = 1 THEN "1" \o BinText(bs, k - 1, TRUE)
                           ELSE (IF started THEN "0" ELSE "") \o BinText(bs, k - 1, started)
NumText(x) == CASE x.kind = "byte" -> "0b" \o BinText(N!NatBits(x.z.mag, 8), 8, FALSE)
                [] x.kind = "float" -> N!FloatText(x.f)        \* the shortest decimal that reads back as the same double (MSNum)
                [] OTHER -> N!DecOfInt(x.z)
IsFloatV(v) == v.t = "num" /\ v.n.kind = "float"

-----------------------------------------------------------------------------
TopA(m) == m.acts[Len(m.acts)]
SetTop(m, a) == [m EXCEPT !.acts[Len(m.acts)] = a]
FailM(m, why) == [m EXCEPT !.st = "fail", !.why = why]
OomM(m, why) == [m EXCEPT !.st = "oom", !.why = why]
Adv(a) == [a EXCEPT !.ip = @ + 1]
PushV(a, v) == [a EXCEPT !.ops = Append(@, v)]
TopV(a) == a.ops[Len(a.ops)]
PopV(a) == [a EXCEPT !.ops = SubSeq(@, 1, Len(@) - 1)]
View(id, ix) == [t |-> "view", id |-> id, ix |-> ix]
HeapOf(m) == [St0 EXCEPT !.lists = m.lists, !.maps = m.maps]     \* what MSLang's Show / ValEq / BinOp / Builtin look at
(* Primitive::move_out_of_heap_primitive *)
CView(c) == [t |-> "cview", c |-> c]
MView(id, k) == [t |-> "mview", id |-> id, k |-> k]     \* HeapPrimitive::MapPtr: a map and a key (the entry may not exist)
MapHas(m, p) == MapFind(m.maps[p.id], 1, p.k, HeapOf(m)) # 0
VMod(file) == [t |-> "mod", file |-> file]       \* Primitive::Module: a reference to the file's (growing) export table
ExportsOf(m, file) == IF file \in DOMAIN m.exports THEN m.exports[file] ELSE NoFrame
AddExport(m, file, n, c) == [m EXCEPT !.exports = [f \in DOMAIN m.exports \cup {file} |->
                                                    IF f = file THEN Bind(ExportsOf(m, file), n, c) ELSE m.exports[f]]]
Deref(m, v) == IF v.t = "view" THEN m.lists[v.id][v.ix + 1] ELSE IF v.t = "cview" THEN m.cells[v.c]
               ELSE IF v.t = "mview" THEN (LET j == MapFind(m.maps[v.id], 1, v.k, [St0 EXCEPT !.lists = m.lists, !.maps = m.maps]) IN
                                           IF j = 0 THEN VNil ELSE m.maps[v.id][j].v)
               ELSE v
IsPtr(v) == v.t \in {"view", "cview", "mview"}
Dangling(m, v) == v.t = "mview" /\ MapFind(m.maps[v.id], 1, v.k, [St0 EXCEPT !.lists = m.lists, !.maps = m.maps]) = 0
(* write through a pointer *)
PtrSet(m, p, v) == IF p.t = "view" THEN [m EXCEPT !.lists[p.id][p.ix + 1] = v]
                   ELSE IF p.t = "mview" THEN [m EXCEPT !.maps[p.id] = MapPut(@, p.k, v, [St0 EXCEPT !.lists = m.lists, !.maps = m.maps])]
                   ELSE [m EXCEPT !.cells[p.c] = v]
DerefAll(m, xs) == [k \in 1..Len(xs) |-> Deref(m, xs[k])]

(* Stack::find_name_in_function: from the top frame down to and including the frame of the *)
(* running function                                                                         *)
RECURSIVE FindLocal(_, _, _)
FindLocal(fr, i, n) == IF i = 0 THEN 0
                       ELSE IF n \in DOMAIN fr[i].vars THEN fr[i].vars[n]
                       ELSE IF ~fr[i].blk THEN 0 ELSE FindLocal(fr, i - 1, n)
(* Stack::find_name: every frame of every caller *)
RECURSIVE FindAny(_, _, _)
FindAny(fr, i, n) == IF i = 0 THEN 0
                     ELSE IF n \in DOMAIN fr[i].vars THEN fr[i].vars[n] ELSE FindAny(fr, i - 1, n)
Local(m, n) == FindLocal(m.frames, Len(m.frames), n)
(* lookup order of load / make_function / bin_op_assign: own frames, captures, callers *)
Resolve(m, a, n) == LET c == Local(m, n) IN
                    IF c # 0 THEN c
                    ELSE IF a.cb.has /\ n \in DOMAIN a.cb.m THEN a.cb.m[n]
                    ELSE FindAny(m.frames, Len(m.frames), n)

(* Stack::register_variable_local: a fresh pair in the top frame *)
BindLocal(m, n, v) == [m EXCEPT !.cells = Append(@, v),
                                !.frames[Len(m.frames)].vars = Bind(@, n, Len(m.cells) + 1)]
(* Stack::register_variable: overwrite the pair found in the running function, else as above *)
Register(m, n, v) == LET c == Local(m, n) IN
                     IF c # 0 THEN [m EXCEPT !.cells[c] = v] ELSE BindLocal(m, n, v)
Unbind(f, n) == [x \in DOMAIN f \ {n} |-> f[x]]

PopFrames(m, k) == [m EXCEPT !.frames = SubSeq(@, 1, Len(@) - k)]
(* Stack::pop_until_function: the special scopes on top plus the function's own frame *)
RECURSIVE BlocksOnTop(_, _)
BlocksOnTop(fr, i) == IF i = 0 \/ ~fr[i].blk THEN 0 ELSE 1 + BlocksOnTop(fr, i - 1)

FnIndex(F, loc) == LET S == {k \in 1..Len(F) : F[k].qn = loc} IN IF S = {} THEN 0 ELSE CHOOSE k \in S : TRUE

-----------------------------------------------------------------------------
(* a return (ret / ret_mod / falling off the end): the activation ends, the caller's *)
(* pending call instruction completes                                                *)
Return(m, hasv, v, k) ==
    LET rv == IF hasv THEN Deref(m, v) ELSE VNil
        m1 == PopFrames(m, k)
        rest == SubSeq(m1.acts, 1, Len(m1.acts) - 1) IN
    IF rest = <<>> THEN [m1 EXCEPT !.acts = <<>>, !.st = "halt"]
    ELSE LET c == rest[Len(rest)] IN
         IF c.drv.on THEN
              \* `then`: collect the result; `wait_for` the next element of the (live) list, or `finish`
              LET d == c.drv
                  acc == IF d.k = "map" THEN (IF hasv THEN Append(d.acc, rv) ELSE d.acc)
                         ELSE (IF hasv /\ rv.t = "bool" /\ rv.b THEN Append(d.acc, m.lists[d.id][d.i]) ELSE d.acc)
                  more == d.i + 1 <= Len(m.lists[d.id]) IN
              IF more THEN
                   [m1 EXCEPT !.acts = Append([rest EXCEPT ![Len(rest)] = [c EXCEPT !.drv = [d EXCEPT !.i = d.i + 1, !.acc = acc]]],
                                               Act(d.fi, <<m.lists[d.id][d.i + 1]>>, d.cb)),
                              !.frames = Append(m1.frames, FnFrame)]
              ELSE [m1 EXCEPT !.acts = [rest EXCEPT ![Len(rest)] = Adv([c EXCEPT !.ops = <<VList(Len(m.lists) + 1)>>, !.drv = NoDrv])],
                              !.lists = Append(m.lists, acc)]
         ELSE LET c1 == Adv(IF hasv THEN PushV(c, v) ELSE c) IN
              [m1 EXCEPT !.acts = [rest EXCEPT ![Len(rest)] = c1]]

Enter(m, a0, fi, args, cb) ==       \* a0 = the caller with its operands already cleared; it stays at the call
    LET m0 == SetTop(m, a0) IN
    [m0 EXCEPT !.acts = Append(m0.acts, Act(fi, args, cb)), !.frames = Append(m0.frames, FnFrame)]

Goto(m, a, off) == SetTop(m, [a EXCEPT !.ip = @ + off])
PushScope(m, a) == [SetTop(m, Adv([a EXCEPT !.sp = @ + 1])) EXCEPT !.frames = Append(@, BlkFrame)]

(* Display: MSLang!Show, extended to boxed numbers at any depth (a float is never compared: HasFn) *)
RECURSIVE ShowD(_, _, _), ShowDs(_, _, _, _)
ShowD(m, d, nested) == IF d.t = "num" THEN NumText(d.n)
                       ELSE IF d.t = "list" THEN "[" \o ShowDs(m, m.lists[d.id], 1, "") \o "]"
                       ELSE Show(d, HeapOf(m), nested)
ShowDs(m, xs, i, acc) == IF i > Len(xs) THEN acc
                         ELSE ShowDs(m, xs, i + 1, acc \o (IF i > 1 THEN ", " ELSE "") \o ShowD(m, Deref(m, xs[i]), TRUE))
ShowV(m, v) == ShowD(m, Deref(m, v), FALSE)
RECURSIVE JoinShown(_, _, _, _)
JoinShown(m, xs, i, acc) == IF i > Len(xs) THEN acc
                            ELSE JoinShown(m, xs, i + 1, acc \o (IF i > 1 THEN ", " ELSE "") \o ShowV(m, xs[i]))

BinResult(m, op, l, r) == BinOp(IF op = "=" THEN "==" ELSE op, Deref(m, l), Deref(m, r), HeapOf(m))

(* the hook's name of the Primitive variant of a printed scalar ("" = not compared) *)
KindName(v) == CASE v.t = "int" -> "Int" [] v.t = "bool" -> "Bool" [] v.t = "str" -> "Str"
                [] v.t = "num" -> (CASE v.n.kind = "bigint" -> "BigInt" [] v.n.kind = "byte" -> "Byte" [] OTHER -> "Float") [] OTHER -> ""
(* built-in methods the machine runs through MSLang!Builtin (those that do not call back into bytecode) *)
BuiltinNames == {"len", "push", "remove", "reverse", "clear", "clone", "join", "index_of", "is_closure", "map", "filter",
                 "substring", "delete", "insert", "parse_int_radix",
                 "contains_key", "replace", "keys", "values", "pairs"}
VoidBuiltins == {"push", "reverse", "clear"}
(* a position inside a list whose order the model does not prescribe (keys / values / pairs of a map): the value *)
(* may be moved around and compared with nil, but never shown or computed with                                   *)
Fuzzy(v) == "fz" \in DOMAIN v
(* values whose Display the model does not prescribe: Opaque = functions, objects, modules, maps, unordered lists (a program   *)
(* printing one is not judged); HasFloat = a float somewhere inside (printed, but its text - the shortest round-trip decimal -  *)
(* is not compared); HasFn = either: the top-of-stack text of such a value is not compared                                      *)
RECURSIVE Opaque(_, _, _), HasFloat(_, _, _)
Opaque(m, v, fuel) == LET d == Deref(m, v) IN
                      Fuzzy(d) \/ d.t \in {"fn", "obj", "bfn", "mod", "map"} \/ (d.t = "list" /\ d.id \in m.unord)
                      \/ (d.t = "list" /\ (fuel = 0 \/ \E k \in 1..Len(m.lists[d.id]) : Opaque(m, m.lists[d.id][k], fuel - 1)))
HasFloat(m, v, fuel) == FALSE        \* (since MSNum!FloatText every float has its text: nothing is left uncompared on this account)
HasFn(m, v, fuel) == Opaque(m, v, fuel) \/ HasFloat(m, v, fuel)

(* a binary operator on two operands (views looked through): MSLang!BinOp on the machine's own values, MSNum!Arith as soon as a  *)
(* boxed number takes part (and for the bit operators / shifts on plain ints), text concatenation with a boxed number           *)
VMBin(m, op, lv, rv) ==
    LET l == Deref(m, lv) r == Deref(m, rv)
        numeric == (l.t = "num" /\ r.t \in {"num", "int"}) \/ (r.t = "num" /\ l.t = "int")
                   \/ (op \in {"&", "|", "xor", "^", "<<", ">>"} /\ l.t = "int" /\ r.t = "int") IN
    IF numeric THEN
         (LET x == NumBin(op, l, r) IN
          IF x.ok THEN [st |-> "ok", v |-> OfNum(x.v), why |-> ""]
          ELSE IF x.oom \/ x.why = "type" THEN [st |-> "oom", v |-> VNil, why |-> "bin_op " \o op \o " outside the tower model"]
          ELSE [st |-> "fail", v |-> VNil, why |-> x.why])
    ELSE IF op = "+" /\ {l.t, r.t} = {"str", "num"} THEN
         [st |-> "ok", v |-> VStr(ShowV(m, l) \o ShowV(m, r)), why |-> ""]
    ELSE IF l.t = "num" \/ r.t = "num" THEN [st |-> "oom", v |-> VNil, why |-> "bin_op " \o op \o " on " \o l.t \o "," \o r.t]
    ELSE LET b == BinResult(m, op, lv, rv) IN
         IF b.st.status = "type" THEN [st |-> "oom", v |-> VNil, why |-> "bin_op " \o op \o " on " \o l.t \o "," \o r.t]
         ELSE IF b.st.status # "ok" THEN [st |-> "fail", v |-> VNil, why |-> b.st.status]
         ELSE [st |-> "ok", v |-> b.v, why |-> ""]

(* one instruction *)
Exec1(F, m) ==
    LET a == TopA(m)
        ins == F[a.fi].code[a.ip + 1]
        op == ins.op
        ar == ins.args
        n == Len(a.ops)
        a1 == IF Len(ar) >= 1 THEN ar[1] ELSE "" IN
    CASE op = "make_int" ->
            IF IsLit(a1) THEN SetTop(m, Adv(PushV(a, VInt(LitVal(a1))))) ELSE OomM(m, "make_int " \o a1)
      [] op = "make_bigint" ->
            IF AllDigits(a1) /\ Len(a1) <= 39 THEN SetTop(m, Adv(PushV(a, VNum(N!VI("bigint", N!IntOfDec(a1)))))) ELSE OomM(m, "make_bigint " \o a1)
      [] op = "make_byte" ->
            IF AllDigits(a1) /\ Len(a1) <= 3 THEN SetTop(m, Adv(PushV(a, VNum(N!VI("byte", N!IntOfDec(a1)))))) ELSE OomM(m, "make_byte " \o a1)
      [] op = "make_float" ->
            LET f == FloatOfText(a1) IN
            IF f.ok THEN SetTop(m, Adv(PushV(a, VNum(N!VF(f.f))))) ELSE OomM(m, "make_float " \o a1)
      [] op = "make_bool" -> SetTop(m, Adv(PushV(a, VBool(a1 = "true"))))
      [] op = "make_str" -> SetTop(m, Adv(PushV(a, VStr(a1))))
      [] op = "reserve_primitive" -> SetTop(m, Adv(PushV(a, VNil)))
      [] op = "void" -> SetTop(m, Adv([a EXCEPT !.ops = <<>>]))
      [] op = "pop" -> IF n = 0 THEN FailM(m, "machine") ELSE SetTop(m, Adv(PopV(a)))
      [] op = "printn" ->
            IF a1 # "*" THEN OomM(m, "printn index")
            ELSE IF \E k \in 1..n : Opaque(m, a.ops[k], 3) THEN OomM(m, "print of a value the machine does not show (function, object, module, list of boxed numbers)")
            ELSE [SetTop(m, Adv(a)) EXCEPT !.out = Append(@, JoinShown(m, a.ops, 1, "")), !.pr = @ \o [k \in 1..n |-> [text |-> ShowV(m, a.ops[k]), kind |-> KindName(Deref(m, a.ops[k])), any |-> HasFloat(m, a.ops[k], 3)]]]
      [] op = "store" -> IF n # 1 THEN FailM(m, "machine") ELSE Register(SetTop(m, Adv(PopV(a))), a1, Deref(m, TopV(a)))
      [] op = "store_fast" -> IF n # 1 THEN FailM(m, "machine") ELSE BindLocal(SetTop(m, Adv(PopV(a))), a1, Deref(m, TopV(a)))
      [] op = "store_object" ->
            IF n # 1 \/ ~a.cb.has \/ a1 \notin DOMAIN a.cb.m THEN FailM(m, "machine")
            ELSE [SetTop(m, Adv(PopV(a))) EXCEPT !.cells[a.cb.m[a1]] = Deref(m, TopV(a))]
      [] op = "store_skip" ->
            \* (the operand may be a view of a list element / a field: it is looked through, and the value - not the view - is stored)
            IF n # 1 \/ Len(ar) < 3 \/ Deref(m, TopV(a)).t # "bool" \/ ~IsLit(ar[3]) THEN FailM(m, "machine")
            ELSE IF (ar[2] = "1") = Deref(m, TopV(a)).b THEN Goto(m, a, LitVal(ar[3]))
            ELSE BindLocal(SetTop(m, Adv(PopV(a))), a1, Deref(m, TopV(a)))
      [] op = "load" -> LET c == Resolve(m, a, a1) IN
            IF c = 0 THEN FailM(m, "machine") ELSE SetTop(m, Adv(PushV(a, m.cells[c])))
      [] op = "load_fast" -> LET c == Local(m, a1) IN
            IF c = 0 THEN FailM(m, "machine") ELSE SetTop(m, Adv(PushV(a, m.cells[c])))
      [] op = "load_callback" ->
            IF ~a.cb.has \/ a1 \notin DOMAIN a.cb.m THEN FailM(m, "machine")
            ELSE SetTop(m, Adv(PushV(a, m.cells[a.cb.m[a1]])))
      [] op = "delete_name_scoped" ->
            LET top == m.frames[Len(m.frames)].vars IN
            IF \E k \in 1..Len(ar) : ar[k] \notin DOMAIN top THEN FailM(m, "machine")
            ELSE [SetTop(m, Adv(a)) EXCEPT !.frames[Len(m.frames)].vars = [x \in DOMAIN top \ {ar[k] : k \in 1..Len(ar)} |-> top[x]]]
      [] op = "delete_name_reference_scoped" ->
            LET top == m.frames[Len(m.frames)].vars IN
            IF a1 \notin DOMAIN top THEN FailM(m, "machine")
            ELSE [SetTop(m, Adv(PushV(a, m.cells[top[a1]]))) EXCEPT !.frames[Len(m.frames)].vars = Unbind(top, a1)]
      [] op = "fast_rev2" ->
            IF n # 2 THEN FailM(m, "machine") ELSE SetTop(m, Adv([a EXCEPT !.ops = <<a.ops[2], a.ops[1]>>]))
      [] op = "bin_op" ->
            IF n < 2 THEN FailM(m, "machine")
            ELSE IF Fuzzy(Deref(m, a.ops[n - 1])) \/ Fuzzy(Deref(m, a.ops[n])) THEN OomM(m, "arithmetic on a position in an unordered list")
            ELSE LET r == VMBin(m, a1, a.ops[n - 1], a.ops[n]) IN
                 IF r.st = "oom" THEN OomM(m, r.why)
                 ELSE IF r.st = "fail" THEN FailM(m, r.why)
                 ELSE SetTop(m, Adv([a EXCEPT !.ops = <<r.v>>]))          \* clear_and_set_stack
      [] op = "bin_op_assign" ->
            IF Len(ar) < 2 THEN
                 (IF n < 2 \/ ~IsPtr(a.ops[n - 1]) THEN FailM(m, "machine")
                  ELSE LET p == a.ops[n - 1]
                           r == VMBin(m, SubSeq(a1, 1, Len(a1) - 1), p, a.ops[n]) IN
                       IF r.st = "oom" THEN OomM(m, "bin_op_assign " \o a1 \o ": " \o r.why)
                       ELSE IF r.st = "fail" THEN FailM(m, r.why)
                       ELSE PtrSet(SetTop(m, Adv([a EXCEPT !.ops = Append(SubSeq(a.ops, 1, n - 2), r.v)])), p, r.v))
            ELSE LET c == Resolve(m, a, ar[2]) IN
                 IF c = 0 \/ n = 0 THEN FailM(m, "machine")
                 ELSE LET r == VMBin(m, SubSeq(a1, 1, Len(a1) - 1), m.cells[c], TopV(a)) IN
                      IF r.st = "oom" THEN OomM(m, "bin_op_assign " \o a1 \o ": " \o r.why)
                      ELSE IF r.st = "fail" THEN FailM(m, r.why)
                      ELSE [SetTop(m, Adv([a EXCEPT !.ops[n] = r.v])) EXCEPT !.cells[c] = r.v]
      [] op \in {"equ", "neq"} ->
            IF n # 2 THEN FailM(m, "machine")
            ELSE IF Deref(m, a.ops[1]).t = "nil" \/ Deref(m, a.ops[2]).t = "nil" THEN      \* nil only equals nil
                 LET e == Deref(m, a.ops[1]).t = Deref(m, a.ops[2]).t IN
                 SetTop(m, Adv([a EXCEPT !.ops = <<VBool(IF op = "equ" THEN e ELSE ~e)>>]))
            ELSE IF Deref(m, a.ops[1]).t = "num" \/ Deref(m, a.ops[2]).t = "num" THEN
                 (IF Deref(m, a.ops[1]).t \notin {"num", "int"} \/ Deref(m, a.ops[2]).t \notin {"num", "int"} THEN OomM(m, "comparison of a number with " \o Deref(m, a.ops[1]).t \o "," \o Deref(m, a.ops[2]).t)
                  ELSE LET r == NumBin("==", Deref(m, a.ops[1]), Deref(m, a.ops[2])) IN
                       IF ~r.ok THEN OomM(m, "comparison of numbers outside the tower model")
                       ELSE SetTop(m, Adv([a EXCEPT !.ops = <<VBool(IF op = "equ" THEN r.v.b ELSE ~r.v.b)>>])))
            ELSE IF HasFn(m, a.ops[1], 3) \/ HasFn(m, a.ops[2], 3) THEN OomM(m, "comparison of functions / objects")
            ELSE LET e == ValEq(Deref(m, a.ops[2]), Deref(m, a.ops[1]), HeapOf(m)) IN
                 SetTop(m, Adv([a EXCEPT !.ops = <<VBool(IF op = "equ" THEN e ELSE ~e)>>]))
      [] op = "neg" ->      \* the value is negated, not the slot it was read from
            IF n = 0 THEN FailM(m, "machine")
            ELSE LET v == Deref(m, TopV(a)) IN
                 IF v.t = "num" THEN
                      (LET r == N!Negate(v.n) IN
                       IF r.ok THEN SetTop(m, Adv([a EXCEPT !.ops[n] = OfNum(r.v)])) ELSE IF r.why = "type" THEN OomM(m, "neg of a byte") ELSE FailM(m, r.why))
                 ELSE IF v.t # "int" THEN OomM(m, "neg of " \o v.t)
                 ELSE LET r == INeg(v.v) IN
                      IF r.fail # "" THEN FailM(m, r.fail) ELSE SetTop(m, Adv([a EXCEPT !.ops[n] = VInt(r.v)]))
      [] op = "not" ->
            IF n = 0 \/ Deref(m, TopV(a)).t # "bool" THEN FailM(m, "machine")
            ELSE SetTop(m, Adv([a EXCEPT !.ops[n] = VBool(~Deref(m, TopV(a)).b)]))
      [] op \in {"if_stmt", "while_loop"} ->
            IF n = 0 \/ Deref(m, TopV(a)).t # "bool" \/ ~IsLit(a1) THEN FailM(m, "machine")
            ELSE LET a2 == [a EXCEPT !.ops = <<>>] IN
                 IF Deref(m, TopV(a)).b THEN PushScope(m, a2) ELSE Goto(m, a2, LitVal(a1))
      [] op = "else_stmt" -> PushScope(m, a)
      [] op = "jmp" -> IF IsLit(a1) THEN Goto(m, a, LitVal(a1)) ELSE FailM(m, "machine")
      [] op = "jmp_pop" ->
            LET k == IF Len(ar) >= 2 THEN (IF IsLit(ar[2]) THEN LitVal(ar[2]) ELSE -1) ELSE 1 IN
            IF ~IsLit(a1) \/ k < 0 \/ k >= Len(m.frames) THEN FailM(m, "machine")
            ELSE PopFrames(Goto(m, a, LitVal(a1)), k)
      [] op = "done" ->
            IF a.sp > 0 THEN PopFrames(SetTop(m, Adv([a EXCEPT !.sp = @ - 1])), 1) ELSE SetTop(m, Adv(a))
      [] op = "assert" ->
            IF n # 1 THEN FailM(m, "machine")
            ELSE LET v == Deref(m, TopV(a)) IN
                 IF v.t = "bool" /\ v.b THEN SetTop(m, Adv(PopV(a))) ELSE FailM(m, "assert")
      [] op = "unwrap" ->
            IF n = 0 THEN FailM(m, "machine")
            ELSE IF Deref(m, TopV(a)).t = "nil" THEN FailM(m, "nil") ELSE SetTop(m, Adv(a))
      [] op = "unwrap_into" ->
            IF n = 0 THEN FailM(m, "machine")
            ELSE LET v == Deref(m, TopV(a)) IN
                 Register(SetTop(m, Adv(PushV(PopV(a), VBool(v.t # "nil")))), a1, v)
      [] op = "jmp_not_nil" ->
            IF n = 0 \/ ~IsLit(a1) THEN FailM(m, "machine")
            ELSE IF Deref(m, TopV(a)).t = "nil" THEN SetTop(m, Adv(PopV(a))) ELSE Goto(m, a, LitVal(a1))
      [] op = "arg" ->
            IF ~IsLit(a1) \/ LitVal(a1) < 0 \/ LitVal(a1) >= Len(a.args) THEN FailM(m, "machine")
            ELSE SetTop(m, Adv(PushV(a, a.args[LitVal(a1) + 1])))
      [] op = "make_function" ->
            LET names == {ar[k] : k \in 2..Len(ar)} IN
            IF \E x \in names : Resolve(m, a, x) = 0 THEN FailM(m, "machine")
            ELSE SetTop(m, Adv(PushV(a, MFn(a1, [has |-> Len(ar) > 1, m |-> [x \in names |-> Resolve(m, a, x)]]))))
      [] op = "lookup" ->        \* a built-in method of a vector / string / function value; the receiver comes back through ld_self
            IF n # 1 THEN FailM(m, "machine")
            ELSE LET r == Deref(m, TopV(a)) IN
                 IF r.t \in {"list", "str", "fn", "map"} /\ a1 \in BuiltinNames THEN SetTop(m, Adv([a EXCEPT !.ops = <<[t |-> "bfn", m |-> a1]>>]))
                 ELSE IF r.t = "obj" THEN          \* Object::get_property: a field, else the method `Class::name`
                      LET o == m.objs[r.id]
                          q == o.cls \o "::" \o a1 IN
                      IF a1 \in DOMAIN o.vars THEN SetTop(m, Adv([a EXCEPT !.ops = <<CView(o.vars[a1])>>]))
                      ELSE IF q \in DOMAIN o.vars THEN SetTop(m, Adv([a EXCEPT !.ops = <<CView(o.vars[q])>>]))
                      ELSE FailM(m, "machine")
                 ELSE IF r.t = "mod" THEN
                      (IF a1 \in DOMAIN ExportsOf(m, r.file) THEN SetTop(m, Adv([a EXCEPT !.ops = <<CView(ExportsOf(m, r.file)[a1])>>]))
                       ELSE FailM(m, "machine"))
                 ELSE IF r.t = "nil" THEN FailM(m, "nil")
                 ELSE OomM(m, "lookup " \o a1 \o " on " \o r.t)
      [] op = "ld_self" -> LET c == Local(m, a1) IN
            IF c = 0 THEN FailM(m, "machine") ELSE SetTop(m, Adv([a EXCEPT !.ops = <<m.cells[c]>> \o @]))
      [] op = "call" /\ Len(ar) = 0 /\ n >= 1 /\ Deref(m, a.ops[IF n >= 1 THEN n ELSE 1]).t = "bfn" ->
            \* BuiltInFunction::run on [receiver, arguments...]; a frame `<native code>` is pushed and popped inside the step
            IF n < 2 THEN FailM(m, "machine")
            ELSE LET f == Deref(m, a.ops[n])
                     recv == Deref(m, a.ops[1])
                     rest == DerefAll(m, SubSeq(a.ops, 2, n - 1)) IN
                 IF f.m \in {"map", "filter"} THEN
                      (IF recv.t # "list" \/ Len(rest) # 1 THEN FailM(m, "machine")
                       ELSE IF rest[1].t # "fn" THEN OomM(m, f.m \o " with a built-in as callback")
                       ELSE LET fi == FnIndex(F, rest[1].loc) IN
                            IF fi = 0 THEN OomM(m, "callback " \o rest[1].loc)
                            ELSE IF m.lists[recv.id] = <<>> THEN
                                 [SetTop(m, Adv([a EXCEPT !.ops = <<VList(Len(m.lists) + 1)>>])) EXCEPT !.lists = Append(@, <<>>)]
                            ELSE Enter(m, [a EXCEPT !.ops = <<>>, !.drv = [on |-> TRUE, k |-> f.m, id |-> recv.id, i |-> 1, acc |-> <<>>,
                                                                            fi |-> fi, cb |-> rest[1].cb]],
                                       fi, <<m.lists[recv.id][1]>>, rest[1].cb))
                 ELSE IF f.m = "is_closure" THEN
                      (IF recv.t # "fn" THEN OomM(m, "is_closure on " \o recv.t)
                       ELSE SetTop(m, Adv([a EXCEPT !.ops = <<VBool(recv.cb.has)>>])))
                 ELSE IF recv.t = "fn" \/ (f.m = "index_of" /\ \E k \in 1..Len(rest) : HasFn(m, rest[k], 3)) THEN OomM(m, "built-in " \o f.m \o " with a function")
                 ELSE LET r == Builtin(recv, f.m, rest, HeapOf(m)) IN
                      IF r.st.status = "type" THEN OomM(m, "built-in " \o f.m \o " on " \o recv.t)
                      ELSE IF r.st.status # "ok" THEN FailM(m, r.st.status)
                      ELSE [SetTop(m, Adv([a EXCEPT !.ops = IF f.m \in VoidBuiltins THEN <<>>
                                                           ELSE IF f.m = "index_of" /\ recv.t = "list" /\ recv.id \in m.unord /\ r.v.t = "int"
                                                                THEN <<[t |-> "int", v |-> r.v.v, fz |-> TRUE]>> ELSE <<r.v>>])) EXCEPT !.lists = r.st.lists, !.maps = r.st.maps,
                                 !.unord = IF recv.t = "map" /\ f.m \in {"keys", "values", "pairs"} THEN @ \cup {r.v.id} ELSE @]
      [] op = "call" ->
            IF Len(ar) >= 1 THEN
                 LET fi == FnIndex(F, a1) IN
                 IF fi = 0 THEN OomM(m, "call of " \o a1) ELSE Enter(m, [a EXCEPT !.ops = <<>>], fi, a.ops, NoCb)
            ELSE IF n = 0 THEN FailM(m, "machine")
            ELSE IF Deref(m, TopV(a)).t # "fn" THEN OomM(m, "call of a " \o Deref(m, TopV(a)).t)
            ELSE LET f == Deref(m, TopV(a))
                     fi == FnIndex(F, f.loc) IN
                 IF fi = 0 THEN OomM(m, "call of " \o f.loc)
                 ELSE Enter(m, [a EXCEPT !.ops = <<>>], fi, SubSeq(a.ops, 1, n - 1), f.cb)
      [] op = "call_self" -> Enter(m, [a EXCEPT !.ops = <<>>], a.fi, a.ops, a.cb)
      [] op = "ret" ->
            IF n > 1 THEN FailM(m, "machine")
            ELSE Return(m, n = 1, IF n = 1 THEN TopV(a) ELSE VNil, BlocksOnTop(m.frames, Len(m.frames)) + 1)
      [] op = "ret_mod" ->
            IF n # 0 THEN FailM(m, "machine")
            ELSE Return(m, Len(m.acts) > 1, VMod(F[a.fi].file), BlocksOnTop(m.frames, Len(m.frames)) + 1)
      [] op = "make_vector" ->
            IF Len(ar) = 0 THEN [SetTop(m, Adv([a EXCEPT !.ops = <<VList(Len(m.lists) + 1)>>])) EXCEPT !.lists = Append(@, DerefAll(m, a.ops))]
            ELSE [SetTop(m, Adv(PushV(a, VList(Len(m.lists) + 1)))) EXCEPT !.lists = Append(@, <<>>)]
      [] op = "vec_op" ->
            IF Len(a1) >= 1 /\ SubSeq(a1, 1, 1) = "+" THEN
                 LET c == Local(m, SubSeq(a1, 2, Len(a1))) IN
                 IF n # 1 \/ c = 0 THEN FailM(m, "machine")
                 ELSE IF m.cells[c].t # "list" THEN FailM(m, "machine")
                 ELSE [SetTop(m, Adv(PopV(a))) EXCEPT !.lists[m.cells[c].id] = Append(@, Deref(m, TopV(a)))]
            ELSE IF Len(a1) >= 3 /\ SubSeq(a1, 1, 1) = "[" THEN
                 LET ixs == SubSeq(a1, 2, Len(a1) - 1)
                     c == IF IsDigits(ixs) THEN 0 ELSE Local(m, ixs)
                     ixv == IF IsDigits(ixs) THEN VInt(DigitsVal(ixs, Len(ixs))) ELSE IF c = 0 THEN VNil ELSE m.cells[c] IN
                 IF ixv.t = "num" THEN OomM(m, "index of kind " \o ixv.n.kind)
                 ELSE IF n = 0 \/ ixv.t # "int" THEN FailM(m, "machine")
                 ELSE LET x == Deref(m, TopV(a)) IN
                      IF ixv.v < 0 THEN FailM(m, "index")
                      ELSE IF x.t = "list" THEN
                           (IF ixv.v >= Len(m.lists[x.id]) THEN FailM(m, "index")
                            ELSE SetTop(m, Adv(PushV(PopV(a), View(x.id, ixv.v)))))
                      ELSE IF x.t = "str" THEN
                           (IF ixv.v >= Len(x.s) THEN FailM(m, "index")
                            ELSE SetTop(m, Adv(PushV(PopV(a), VStr(SubSeq(x.s, ixv.v + 1, ixv.v + 1))))))
                      ELSE FailM(m, "machine")
            ELSE IF a1 = "reverse" THEN
                 (IF n = 0 \/ TopV(a).t # "list" THEN FailM(m, "machine")
                  ELSE [SetTop(m, Adv(a)) EXCEPT !.lists[TopV(a).id] = Rev(@)])
            ELSE IF a1 = "mut" THEN
                 (IF n # 2 \/ Len(ar) < 2 \/ ~IsDigits(ar[2]) \/ Deref(m, a.ops[1]).t # "list" THEN FailM(m, "machine")
                  ELSE LET id == Deref(m, a.ops[1]).id k == DigitsVal(ar[2], Len(ar[2])) IN
                       IF k >= Len(m.lists[id]) THEN FailM(m, "machine")
                       ELSE [SetTop(m, Adv(PopV(a))) EXCEPT !.lists[id][k + 1] = Deref(m, a.ops[2])])
            ELSE OomM(m, "vec_op " \o a1)
      [] op = "ptr_mut" ->
            IF n < 2 \/ ~IsPtr(a.ops[n - 1]) THEN FailM(m, "machine")
            ELSE PtrSet(SetTop(m, Adv([a EXCEPT !.ops = SubSeq(@, 1, n - 2)])), a.ops[n - 1], Deref(m, a.ops[n]))
      [] op = "make_map" -> [SetTop(m, Adv(PushV(a, VMap(Len(m.maps) + 1)))) EXCEPT !.maps = Append(@, <<>>)]
      [] op = "fast_map_insert" ->      \* map literal: `map[..]{k: v}` - the map and the key are in registers, the value on the stack
            LET cm == Local(m, a1) ck == IF Len(ar) >= 2 THEN Local(m, ar[2]) ELSE 0 IN
            IF n = 0 \/ cm = 0 \/ ck = 0 THEN FailM(m, "machine")
            ELSE IF m.cells[cm].t # "map" THEN FailM(m, "machine")
            ELSE [SetTop(m, Adv(PopV(a))) EXCEPT !.maps[m.cells[cm].id] = MapPut(@, m.cells[ck], Deref(m, TopV(a)), HeapOf(m))]
      [] op = "map_op" ->               \* `m[k]`: a pointer to the entry (which need not exist yet)
            LET cm == Local(m, a1) IN
            IF n = 0 \/ cm = 0 THEN FailM(m, "machine")
            ELSE IF m.cells[cm].t # "map" THEN FailM(m, "machine")
            ELSE SetTop(m, Adv(PushV(PopV(a), MView(m.cells[cm].id, Deref(m, TopV(a))))))
      [] op = "make_object" ->
            [SetTop(m, Adv(PushV(a, VObj(Len(m.objs) + 1)))) EXCEPT
                !.objs = Append(@, [cls |-> F[a.fi].name, vars |-> m.frames[Len(m.frames)].vars])]
      [] op = "export_special" ->      \* the class function: bound (read-only) in the top frame and exported
            IF n # 1 THEN FailM(m, "machine")
            ELSE LET m1 == BindLocal(SetTop(m, Adv(PopV(a))), a1, Deref(m, TopV(a))) IN
                 AddExport(m1, F[a.fi].file, IF Len(ar) >= 2 THEN ar[2] ELSE a1, Len(m1.cells))
      [] op = "export_name" -> LET c == Local(m, a1) IN
            IF c = 0 THEN FailM(m, "machine") ELSE AddExport(SetTop(m, Adv(a)), F[a.fi].file, a1, c)
      [] op = "load_self_export" ->
            IF a1 \notin DOMAIN ExportsOf(m, F[a.fi].file) THEN FailM(m, "machine")
            ELSE SetTop(m, Adv(PushV(a, m.cells[ExportsOf(m, F[a.fi].file)[a1]])))
      [] op = "module_entry" ->        \* first import runs the module function; later ones get the cached module
            IF a1 \in m.modcache THEN
                 LET fi == FnIndex(F, a1) IN SetTop(m, Adv([a EXCEPT !.ops = <<VMod(F[fi].file)>>]))
            ELSE LET fi == FnIndex(F, a1) IN
                 \* the file (with its still empty export table) is registered when it is loaded, i.e. before its module
                 \* function runs: an import of a module that is being initialised is a cache hit (circular imports
                 \* see the exports made so far)
                 IF fi = 0 THEN OomM(m, "module " \o a1)
                 ELSE [Enter(m, [a EXCEPT !.ops = <<>>], fi, a.ops, NoCb) EXCEPT !.modcache = @ \cup {a1}]
      [] op = "split_lookup_store" ->  \* `import a, b from m`: fresh local variables holding copies of the exported values
            IF n = 0 \/ TopV(a).t # "mod" THEN FailM(m, "machine")
            ELSE LET ex == ExportsOf(m, TopV(a).file)
                     RECURSIVE BindAll(_, _)
                     BindAll(mm, k) == IF k > Len(ar) THEN mm ELSE BindAll(BindLocal(mm, ar[k], m.cells[ex[ar[k]]]), k + 1) IN
                 IF \E k \in 1..Len(ar) : ar[k] \notin DOMAIN ex THEN FailM(m, "machine")
                 ELSE BindAll(SetTop(m, Adv(a)), 1)
      [] OTHER -> OomM(m, "instruction " \o op)

(* the loop of Function::run: an activation whose instruction pointer has run off the end *)
(* returns no value and pops exactly one frame                                             *)
RECURSIVE Settle(_, _)
Settle(F, m) ==
    IF m.st # "run" \/ m.acts = <<>> THEN m
    ELSE IF TopA(m).ip >= Len(F[TopA(m).fi].code) THEN Settle(F, Return(m, FALSE, VNil, 1))
    ELSE m

(* a read through a map pointer whose key is absent yields nil (GcMap::get); only the read-modify-write of an *)
(* op-assignment through such a pointer is the failure "key"                                                  *)
KeyFailure(F, m) ==
    LET a == TopA(m)
        ins == F[a.fi].code[a.ip + 1]
        n == Len(a.ops) IN
    ins.op = "bin_op_assign" /\ Len(ins.args) < 2 /\ n >= 2 /\ Dangling(m, a.ops[n - 1])

Step(F, m) == IF KeyFailure(F, m) THEN FailM(m, "key") ELSE Settle(F, Exec1(F, m))
=============================================================================
