------------------------------- MODULE GenClos -------------------------------
(* Generator for C07: closures created at module level, inside a function     *)
(* (two independent instances), and inside a nested function; every closure    *)
(* kind (reader / modify-writer / local-writer); called directly, through a    *)
(* caller that owns a same-named local, or through a plain caller; interleaved *)
(* with assignments by the owner.  A state is a history of operations; every   *)
(* history is emitted as a program.                                            *)
EXTENDS Ast, TLC, Json, IOUtils

CONSTANT MaxLen

Insts == {"m", "a", "b", "c", "d", "p", "u", "v", "k"}
   \* module-level, make(10), make(20), nested make2(30), make3(): middle function shadows a captured name,
   \* p: the captured variable is a parameter (make4(40)); u, v: closures made in iterations 0 and 1 of a loop
   \* body over a body-local variable (each iteration has its own variable); k: closures made inside a method over
   \* a local of the method
Fns == {"g", "i", "l", "t", "o"}    \* reader, modify-writer, local-writer, typed local-writer (`x: int = x + 100`),
                                    \* reader whose only use of the captured name is the fallback of an `or`
Vias == {"direct", "shadow", "plain"}

Ops == [op : {"call"}, inst : Insts, f : Fns, via : Vias]
       \cup [op : {"assign"}, k : {50, 60}]
       \cup [op : {"isclosure"}, f : Fns \cup {"pure", "use"}]

VARIABLE hist
Init == hist = <<>>
Next == Len(hist) < MaxLen /\ \E o \in Ops : hist' = Append(hist, o)

FT == "fn() -> int"
Reader(v) == Fn("rd", <<>>, "int", <<Ret(V(v))>>)
Writer(v) == Fn("wr", <<>>, "int", <<Modify(v, Bin("+", V(v), I(1))), Ret(V(v))>>)
Local(v) == Fn("lo", <<>>, "int", <<Let(v, Bin("+", V(v), I(100))), Ret(V(v))>>)
TLocal(v) == Fn("tl", <<>>, "int", <<LetT(v, "int", Bin("+", V(v), I(100))), Ret(V(v))>>)
OrReader(v) == Fn("orr", <<>>, "int", <<LetT("nn", "int?", Nil), Ret(Or(V("nn"), V(v)))>>)
Three == <<Let("g", Reader("x")), Let("i", Writer("x")), Let("l", Local("x")), Let("t", TLocal("x")), Let("o", OrReader("x")),
           Ret(List(<<V("g"), V("i"), V("l"), V("t"), V("o")>>))>>

Prologue ==
    <<Let("x", I(10)),
      Let("mg", Reader("x")), Let("mi", Writer("x")), Let("ml", Local("x")), Let("mt", TLocal("x")), Let("mo", OrReader("x")),
      Let("pure", Fn("pure", <<>>, "int", <<Ret(I(5))>>)),
      Let("make", Fn("make", <<P("start", "int")>>, "[" \o FT \o "...]",
                     <<Let("x", V("start"))>> \o Three)),
      Let("make2", Fn("make2", <<P("start", "int")>>, "[" \o FT \o "...]",
                      <<Let("x", V("start")),
                        Let("inner", Fn("inner", <<>>, "[" \o FT \o "...]", Three)),
                        Ret(Call(V("inner"), <<>>))>>)),
      Let("make3", Fn("make3", <<>>, "[" \o FT \o "...]",
                      <<Let("mid", Fn("mid", <<>>, "[" \o FT \o "...]",
                                     <<Let("x", Bin("+", V("x"), I(1000)))>> \o Three)),
                        Ret(Call(V("mid"), <<>>))>>)),
      Let("make4", Fn("make4", <<P("x", "int")>>, "[" \o FT \o "...]", Three)),
      Let("make5", Fn("make5", <<>>, "[" \o FT \o "...]",
                      <<LetT("out", "[" \o FT \o "...]", List(<<>>)),
                        From(I(0), I(2), FALSE, <<>>, "n",
                             <<Let("x", Bin("+", Bin("*", V("n"), I(100)), I(70))),
                               Let("g", Reader("x")), Let("i", Writer("x")), Let("l", Local("x")), Let("t", TLocal("x")), Let("o", OrReader("x")),
                               ExprS(MCall(V("out"), "push", <<V("g")>>)), ExprS(MCall(V("out"), "push", <<V("i")>>)),
                               ExprS(MCall(V("out"), "push", <<V("l")>>)), ExprS(MCall(V("out"), "push", <<V("t")>>)),
                               ExprS(MCall(V("out"), "push", <<V("o")>>))>>),
                        Ret(V("out"))>>)),
      [k |-> "class", n |-> "Maker", export |-> FALSE, fields |-> <<[n |-> "base", ty |-> "int"]>>,
       ctor |-> <<[ps |-> <<P("b", "int")>>, b |-> <<Assign(Fld(Self, "base"), "=", V("b"))>>]>>,
       methods |-> <<[n |-> "make", ps |-> <<>>, rt |-> "[" \o FT \o "...]",
                      b |-> <<Let("x", Bin("+", Fld(Self, "base"), I(5)))>> \o Three]>>],
      Let("mkr", New("Maker", <<I(50)>>)),
      Let("use", Fn("use", <<P("f", FT)>>, "int", <<Let("x", I(99)), Ret(Call(V("f"), <<>>))>>)),
      Let("use2", Fn("use2", <<P("f", FT)>>, "int", <<Ret(Call(V("f"), <<>>))>>)),
      Let("a", Call(V("make"), <<I(10)>>)), Let("b", Call(V("make"), <<I(20)>>)),
      Let("c", Call(V("make2"), <<I(30)>>)),
      Let("ag", Idx(V("a"), I(0))), Let("ai", Idx(V("a"), I(1))), Let("al", Idx(V("a"), I(2))), Let("at", Idx(V("a"), I(3))), Let("ao", Idx(V("a"), I(4))),
      Let("bg", Idx(V("b"), I(0))), Let("bi", Idx(V("b"), I(1))), Let("bl", Idx(V("b"), I(2))), Let("bt", Idx(V("b"), I(3))), Let("bo", Idx(V("b"), I(4))),
      Let("cg", Idx(V("c"), I(0))), Let("ci", Idx(V("c"), I(1))), Let("cl", Idx(V("c"), I(2))), Let("ct", Idx(V("c"), I(3))), Let("co", Idx(V("c"), I(4))),
      Let("p", Call(V("make4"), <<I(40)>>)),
      Let("pg", Idx(V("p"), I(0))), Let("pi", Idx(V("p"), I(1))), Let("pl", Idx(V("p"), I(2))), Let("pt", Idx(V("p"), I(3))), Let("po", Idx(V("p"), I(4))),
      Let("w", Call(V("make5"), <<>>)),
      Let("ug", Idx(V("w"), I(0))), Let("ui", Idx(V("w"), I(1))), Let("ul", Idx(V("w"), I(2))), Let("ut", Idx(V("w"), I(3))), Let("uo", Idx(V("w"), I(4))),
      Let("vg", Idx(V("w"), I(5))), Let("vi", Idx(V("w"), I(6))), Let("vl", Idx(V("w"), I(7))), Let("vt", Idx(V("w"), I(8))), Let("vo", Idx(V("w"), I(9))),
      Let("k", MCall(V("mkr"), "make", <<>>)),
      Let("kg", Idx(V("k"), I(0))), Let("ki", Idx(V("k"), I(1))), Let("kl", Idx(V("k"), I(2))), Let("kt", Idx(V("k"), I(3))), Let("ko", Idx(V("k"), I(4))),
      Let("d", Call(V("make3"), <<>>)),
      Let("dg", Idx(V("d"), I(0))), Let("di", Idx(V("d"), I(1))), Let("dl", Idx(V("d"), I(2))), Let("dt", Idx(V("d"), I(3))), Let("do", Idx(V("d"), I(4)))>>

FnVar(o) == V(o.inst \o o.f)
OpStmt(o) ==
    CASE o.op = "call" ->
           (CASE o.via = "direct" -> Print(Call(FnVar(o), <<>>))
              [] o.via = "shadow" -> Print(Call(V("use"), <<FnVar(o)>>))
              [] o.via = "plain" -> Print(Call(V("use2"), <<FnVar(o)>>)))
      [] o.op = "assign" -> Let("x", I(o.k))
      [] o.op = "isclosure" ->
           Print(MCall(IF o.f \in Fns THEN V("a" \o o.f) ELSE V(o.f), "is_closure", <<>>))

Body(h) == Prologue \o [k \in 1..Len(h) |-> OpStmt(h[k])] \o <<Print(V("x"))>>
Prog(h) == [body |-> Body(h)]

EmitLight == hist # <<>> => PrintT("CASE " \o ToJson([hist |-> hist]))
Selected == ndJsonDeserialize(IOEnv.SELECT)
InitSel == \E k \in 1..Len(Selected) : hist = Selected[k].hist
Stutter == UNCHANGED hist
EmitCase == hist # <<>> => PrintT("CASE " \o ToJson([hist |-> hist, prog |-> Prog(hist)]))
=============================================================================
