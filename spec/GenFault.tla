------------------------------- MODULE GenFault -------------------------------
(* C03: the fault catalogue.  A case = (site, fault, context): a well-typed program  *)
(* (the twin) and the same program with exactly one type-breaking edit at the site.   *)
(* Type-directed faults use only pairs that MSTypes!Assignable calls MustNot.         *)
(* Programs are emitted as source lines; the faulted line carries the marker `# flt`. *)
EXTENDS MSTypes, Json

Contexts == {"module", "fn", "method", "elif", "lib", "dead_ret", "dead_break", "dead_cont"}
\* dead_*: the site is a statement that can never run - it follows an unconditional `return` / `break` / `continue` in the same
\* block.  A position that is never reached is still a typed position of the program.
M == "  # flt"

(* type-directed sites: lines(expr) for an expression text of the supplied type, declared for expected type T *)
TSites == {"init", "reassign", "arg", "ret", "field", "push", "index_assign", "map_value", "map_key", "or_fallback"}
ExpectedOf(site, T) ==      \* the expected type at the site (some sites fix it)
    CASE site \in {"field", "push", "index_assign", "map_value", "or_fallback"} -> "int"
      [] site = "map_key" -> "str"
      [] OTHER -> T
SiteLines(site, T, e) ==
    CASE site = "init" -> <<"flt: " \o T \o " = " \o e \o M>>
      [] site = "reassign" -> <<"re = " \o Sample(T), "re = " \o e \o M>>
      [] site = "arg" -> <<"callee = fn(p: " \o T \o ") -> int { return 1 }", "flt = callee(" \o e \o ")" \o M>>
      [] site = "ret" -> <<"flt = fn() -> " \o T \o " { return " \o e \o " }" \o M>>
      [] site = "field" -> <<"bx = Box()", "bx.v = " \o e \o M>>
      [] site = "push" -> <<"ilist.push(" \o e \o ")" \o M>>
      [] site = "index_assign" -> <<"k0 = 0", "ilist[k0] = " \o e \o M>>
      [] site = "map_value" -> <<"mm = map[str, int]{\"a\": 1}", "mm[\"b\"] = " \o e \o M>>
      [] site = "map_key" -> <<"mm = map[str, int]{\"a\": 1}", "mm[" \o e \o "] = 1" \o M>>
      [] site = "or_fallback" -> <<"flt = (iopt) or " \o e \o M>>

TypedCases == {[kind |-> "typed", site |-> s, T |-> ExpectedOf(s, T), S |-> S2, ctx |-> c] :
                 s \in TSites, T \in Types \ {"int?", "str?"}, S2 \in Types, c \in Contexts}
TypedValid(x) == /\ Assignable(x.T, x.S) = "MustNot"
                 /\ (x.site \in {"field", "push", "index_assign", "map_value", "or_fallback", "map_key"} => TRUE)

FnDefs == <<"dbl = fn(x: int) -> int { return x * 2 }", "noret = fn(x: int) { n9 = x }", "two = fn(x: int, y: int) -> int { return x + y }",
            "strfn = fn(x: str) -> int { return 1 }">>
StageCls == <<"class Stage {", "	step: fn(int) -> int", "	constructor(self, step: fn(int) -> int) {", "		self.step = step", "	}", "}">>
(* fixed faults: [name, bad lines, good lines] *)
Fixed == {
  [name |-> "unknown_name", bad |-> <<"flt = zz + 1" \o M>>, good |-> <<"flt = 1 + 1">>],
  [name |-> "unknown_field", bad |-> <<"bx = Box()", "flt = bx.zz" \o M>>, good |-> <<"bx = Box()", "flt = bx.v">>],
  [name |-> "unknown_method", bad |-> <<"bx = Box()", "flt = bx.zz()" \o M>>, good |-> <<"bx = Box()", "flt = bx.val()">>],
  [name |-> "call_non_callable", bad |-> <<"n5 = 5", "flt = n5()" \o M>>, good |-> <<"n5 = 5", "flt = ifn()">>],
  [name |-> "index_non_indexable", bad |-> <<"n5 = 5", "flt = n5[0]" \o M>>, good |-> <<"k0 = 0", "flt = ilist[k0]">>],
  [name |-> "index_with_non_index", bad |-> <<"flt = ilist[\"a\"]" \o M>>, good |-> <<"k0 = 0", "flt = ilist[k0]">>],
  [name |-> "too_few_args", bad |-> <<"callee = fn(p: int) -> int { return 1 }", "flt = callee()" \o M>>,
                            good |-> <<"callee = fn(p: int) -> int { return 1 }", "flt = callee(1)">>],
  [name |-> "too_many_args", bad |-> <<"callee = fn(p: int) -> int { return 1 }", "flt = callee(1, 2)" \o M>>,
                             good |-> <<"callee = fn(p: int) -> int { return 1 }", "flt = callee(1)">>],
  [name |-> "too_many_args0", bad |-> <<"flt = ifn(1)" \o M>>, good |-> <<"flt = ifn()">>],
  [name |-> "missing_return_value", bad |-> <<"flt = fn() -> int { return  }" \o M>>, good |-> <<"flt = fn() -> int { return 1 }">>],
  [name |-> "value_in_void_fn", bad |-> <<"flt = fn() { return 5 }" \o M>>, good |-> <<"flt = fn() { n = 5 }">>],
  \* a value returned from a block of a function without result type - also when that function is nested in one that has a
  \* result type (contexts fn / method): the block owes nothing to the enclosing function
  [name |-> "value_in_void_fn_if", bad |-> <<"flt = fn(c: bool) { if c { return 5 } }" \o M>>, good |-> <<"flt = fn(c: bool) { if c { n = 5 } }">>],
  [name |-> "value_in_void_fn_else", bad |-> <<"flt = fn(c: bool) { if c { n = 5 } else { return 5 } }" \o M>>, good |-> <<"flt = fn(c: bool) { if c { n = 5 } else { n = 6 } }">>],
  [name |-> "value_in_void_fn_while", bad |-> <<"flt = fn(c: bool) { while c { return 5 } }" \o M>>, good |-> <<"flt = fn(c: bool) { while c { break } }">>],
  [name |-> "value_in_void_fn_from", bad |-> <<"flt = fn() { from 0 to 2 { return 5 } }" \o M>>, good |-> <<"flt = fn() { from 0 to 2 { n = 5 } }">>],
  [name |-> "value_in_void_method_if", bad |-> <<"class KV {", "	fn m(self, c: bool) {", "		if c {", "			return 5" \o M, "		}", "	}", "}", "flt = KV()">>,
                                       good |-> <<"class KV {", "	fn m(self, c: bool) {", "		if c {", "			n = 5", "		}", "	}", "}", "flt = KV()">>],
  \* a name that only exists as a parameter of another method of the class
  [name |-> "unknown_name_sibling_param",
   bad |-> <<"class KS {", "	fn other(self, zz: int) -> int {", "		return zz", "	}", "	fn go(self) -> int {", "		return zz" \o M, "	}", "}", "flt = KS()">>,
   good |-> <<"class KS {", "	fn other(self, zz: int) -> int {", "		return zz", "	}", "	fn go(self) -> int {", "		return 1", "	}", "}", "flt = KS()">>],
  [name |-> "missing_return_path", bad |-> <<"flt = fn() -> int { if true { return 1 } }" \o M>>,
                                   good |-> <<"flt = fn() -> int { if true { return 1 } return 2 }">>],
  [name |-> "missing_return_else", bad |-> <<"flt = fn(c: bool) -> int { if c { return 1 } else { k9 = 2 } }" \o M>>,
                                   good |-> <<"flt = fn(c: bool) -> int { if c { return 1 } else { return 2 } }">>],
  [name |-> "missing_return_elif", bad |-> <<"flt = fn(c: int) -> int { if c == 1 { return 1 } else if c == 2 { k9 = 2 } else { return 3 } }" \o M>>,
                                   good |-> <<"flt = fn(c: int) -> int { if c == 1 { return 1 } else if c == 2 { return 2 } else { return 3 } }">>],
  [name |-> "missing_return_if_arm", bad |-> <<"flt = fn(c: bool) -> int { if c { k9 = 2 } else { return 1 } }" \o M>>,
                                     good |-> <<"flt = fn(c: bool) -> int { if c { k9 = 2 } else { return 1 } return 3 }">>],
  [name |-> "missing_return_while", bad |-> <<"flt = fn(c: bool) -> int { while c { return 1 } }" \o M>>,
                                    good |-> <<"flt = fn(c: bool) -> int { while c { return 1 } return 2 }">>],
  [name |-> "missing_return_if_false", bad |-> <<"flt = fn() -> int { if false { return 1 } }" \o M>>,
                                       good |-> <<"flt = fn() -> int { if false { return 1 } return 2 }">>],
  [name |-> "missing_return_loop_break", bad |-> <<"flt = fn(c: bool) -> int { while true { if c { break } return 1 } }" \o M>>,
                                         good |-> <<"flt = fn(c: bool) -> int { while true { if c { break } return 1 } return 2 }">>],
  [name |-> "missing_return_loop_break_else", bad |-> <<"flt = fn(c: bool) -> int { while true { if c { k9 = 1 } else { break } } }" \o M>>,
                                              good |-> <<"flt = fn(c: bool) -> int { while true { if c { k9 = 1 } else { break } } return 2 }">>],
  \* the same rule inside a class body: a method that promises a value returns one on every path
  [name |-> "missing_return_method", bad |-> <<"class KM {", "	fn m(self) -> int {" \o M, "		k9 = 2", "	}", "}", "flt = KM()">>,
                                     good |-> <<"class KM {", "	fn m(self) -> int {", "		return 2", "	}", "}", "flt = KM()">>],
  [name |-> "missing_return_method_else", bad |-> <<"class KM {", "	fn m(self, c: bool) -> int {" \o M, "		if c {", "			return 1", "		} else {", "			k9 = 2", "		}", "	}", "}", "flt = KM()">>,
                                          good |-> <<"class KM {", "	fn m(self, c: bool) -> int {", "		if c {", "			return 1", "		} else {", "			return 2", "		}", "	}", "}", "flt = KM()">>],
  [name |-> "cond_if", bad |-> <<"if 5 { flt = 1 }" \o M>>, good |-> <<"if true { flt = 1 }">>],
  [name |-> "cond_if_str", bad |-> <<"if \"s\" { flt = 1 }" \o M>>, good |-> <<"if true { flt = 1 }">>],
  [name |-> "cond_while", bad |-> <<"while 5 { break }" \o M>>, good |-> <<"while true { break }">>],
  [name |-> "cond_elif", bad |-> <<"if false { flt = 1 } else if 5 { flt = 2 }" \o M>>, good |-> <<"if false { flt = 1 } else if true { flt = 2 }">>],
  [name |-> "loop_bound", bad |-> <<"from \"a\" to 3 { flt = 1 }" \o M>>, good |-> <<"from 0 to 3 { flt = 1 }">>],
  [name |-> "loop_step", bad |-> <<"from 0 to 3 step true { flt = 1 }" \o M>>, good |-> <<"from 0 to 3 step 1 { flt = 1 }">>],
  [name |-> "neg_str", bad |-> <<"flt = -\"s\"" \o M>>, good |-> <<"flt = -1">>],
  [name |-> "not_int", bad |-> <<"flt = !5" \o M>>, good |-> <<"flt = !true">>],
  [name |-> "get_assign_wrong", bad |-> <<"flt: str = get iopt" \o M>>, good |-> <<"flt: int = get iopt">>],
  [name |-> "method_arg", bad |-> <<"bx = Box()", "flt = bx.add(\"s\")" \o M>>, good |-> <<"bx = Box()", "flt = bx.add(2)">>],
  [name |-> "ctor_arg", bad |-> <<"flt = Pt(\"s\")" \o M>>, good |-> <<"flt = Pt(2)">>],
  [name |-> "assert_non_bool", bad |-> <<"assert 5" \o M>>, good |-> <<"assert true">>],
  \* an optional boolean is not a boolean
  [name |-> "cond_if_optbool", bad |-> <<"if bopt { flt = 1 }" \o M>>, good |-> <<"if (bopt) or false { flt = 1 }">>],
  [name |-> "cond_while_optbool", bad |-> <<"while bopt { break }" \o M>>, good |-> <<"while (bopt) or false { break }">>],
  [name |-> "cond_elif_optbool", bad |-> <<"if false { flt = 1 } else if bopt { flt = 2 }" \o M>>, good |-> <<"if false { flt = 1 } else if (bopt) or false { flt = 2 }">>],
  [name |-> "assert_optbool", bad |-> <<"assert bopt" \o M>>, good |-> <<"assert (bopt) or false">>],
  [name |-> "cond_if_parse_bool", bad |-> <<"if \"true\".parse_bool() { flt = 1 }" \o M>>, good |-> <<"if (\"true\".parse_bool()) or false { flt = 1 }">>],
  [name |-> "not_optbool", bad |-> <<"flt = !bopt" \o M>>, good |-> <<"flt = !(get bopt)">>],
  \* growable-list methods do not exist on fixed-shape lists of mixed element types
  [name |-> "mixed3_reverse", bad |-> <<"const row = [10, 20, \"t\"]", "row.reverse()" \o M>>, good |-> <<"row: [int...] = [10, 20, 30]", "row.reverse()">>],
  [name |-> "mixed4_remove", bad |-> <<"const row = [10, 20, \"t\", \"u\"]", "flt = row.remove(2)" \o M>>, good |-> <<"row: [int...] = [10, 20, 30, 40]", "flt = row.remove(2)">>],
  [name |-> "mixed3_push", bad |-> <<"const row = [10, 20, \"t\"]", "row.push(5)" \o M>>, good |-> <<"row: [int...] = [10, 20, 30]", "row.push(5)">>],
  [name |-> "mixed2_map", bad |-> <<"const row = [10, \"t\"]", "flt = row.map(fn(q: int) -> int { return q })" \o M>>,
                          good |-> <<"row: [int...] = [10, 20]", "flt = row.map(fn(q: int) -> int { return q })">>],
  \* an atom takes one prefix operator: `typeof -5` falls back to reading `typeof` as a (never declared) name
  [name |-> "prefix_word", bad |-> <<"print typeof -5" \o M>>, good |-> <<"tyx = typeof 5">>],
  [name |-> "index_with_optional", bad |-> <<"flt = ilist[iopt]" \o M>>, good |-> <<"k0 = 0", "flt = ilist[k0]">>],
  [name |-> "index_with_index_of", bad |-> <<"flt = ilist[ilist.index_of(2)]" \o M>>, good |-> <<"flt = ilist[get ilist.index_of(2)]">>],
  \* function types that differ only in the optionality of the result
  [name |-> "fn_arg_returns_optional",
   bad |-> <<"taker = fn(f: fn() -> int) -> int { return f() }", "giver = fn() -> int? { return nil }", "flt = taker(giver)" \o M>>,
   good |-> <<"taker = fn(f: fn() -> int) -> int { return f() }", "giver = fn() -> int { return 3 }", "flt = taker(giver)">>],
  [name |-> "fn_decl_returns_optional",
   bad |-> <<"giver = fn() -> int? { return nil }", "flt: fn() -> int = giver" \o M>>,
   good |-> <<"giver = fn() -> int { return 3 }", "flt: fn() -> int = giver">>],
  \* a slot of function type (list element, field, map value, variable) re-assigned with a function of another signature:
  \* no result where one is promised, another parameter count, another parameter type
  [name |-> "fn_slot_index_noret", bad |-> FnDefs \o <<"fl: [fn(int) -> int...] = [dbl, dbl]", "k0 = 0", "fl[k0] = noret" \o M, "rr = (fl[k0])(3) + 1">>,
                                   good |-> FnDefs \o <<"fl: [fn(int) -> int...] = [dbl, dbl]", "k0 = 0", "fl[k0] = dbl", "rr = (fl[k0])(3) + 1">>],
  [name |-> "fn_slot_index_arity", bad |-> FnDefs \o <<"fl: [fn(int) -> int...] = [dbl, dbl]", "k0 = 0", "fl[k0] = two" \o M, "rr = (fl[k0])(3) + 1">>,
                                   good |-> FnDefs \o <<"fl: [fn(int) -> int...] = [dbl, dbl]", "k0 = 0", "fl[k0] = dbl", "rr = (fl[k0])(3) + 1">>],
  [name |-> "fn_slot_field_noret", bad |-> FnDefs \o StageCls \o <<"sg = Stage(dbl)", "sg.step = noret" \o M, "rr = sg.step(3) + 1">>,
                                   good |-> FnDefs \o StageCls \o <<"sg = Stage(dbl)", "sg.step = dbl", "rr = sg.step(3) + 1">>],
  [name |-> "fn_slot_field_param", bad |-> FnDefs \o StageCls \o <<"sg = Stage(dbl)", "sg.step = strfn" \o M, "rr = sg.step(3) + 1">>,
                                   good |-> FnDefs \o StageCls \o <<"sg = Stage(dbl)", "sg.step = dbl", "rr = sg.step(3) + 1">>],
  [name |-> "fn_slot_ctor_noret", bad |-> FnDefs \o StageCls \o <<"sg = Stage(noret)" \o M, "rr = sg.step(3) + 1">>,
                                  good |-> FnDefs \o StageCls \o <<"sg = Stage(dbl)", "rr = sg.step(3) + 1">>],
  [name |-> "fn_slot_map_noret", bad |-> FnDefs \o <<"fm = map[str, fn(int) -> int]{\"a\": dbl}", "fm[\"b\"] = noret" \o M, "rr = (fm[\"b\"])(3) + 1">>,
                                 good |-> FnDefs \o <<"fm = map[str, fn(int) -> int]{\"a\": dbl}", "fm[\"b\"] = dbl", "rr = (fm[\"b\"])(3) + 1">>],
  [name |-> "fn_slot_var_noret", bad |-> FnDefs \o <<"re = dbl", "re = noret" \o M, "rr = re(3) + 1">>, good |-> FnDefs \o <<"re = dbl", "re = dbl", "rr = re(3) + 1">>],
  [name |-> "fn_slot_push_noret", bad |-> FnDefs \o <<"fl: [fn(int) -> int...] = [dbl]", "fl.push(noret)" \o M>>,
                                  good |-> FnDefs \o <<"fl: [fn(int) -> int...] = [dbl]", "fl.push(dbl)">>],
  \* `modify` (typed and untyped) of a captured variable with a value of another type
  [name |-> "modify_typed_mismatch", bad |-> <<"tot = 10", "clo = fn() { modify tot: str = \"ten\" }" \o M, "clo()">>,
                                     good |-> <<"tot = 10", "clo = fn() { modify tot: int = 11 }", "clo()">>],
  \* list literals: a row of another element type behind a well-typed or an empty row; an open list re-assigned / modified
  \* with a literal of another element type
  [name |-> "nested_row_wrong", bad |-> <<"gridf: [[int...]...] = [[1, 2], [1, 2, \"x\"]]" \o M>>, good |-> <<"gridf: [[int...]...] = [[1, 2], [1, 2, 3]]">>],
  [name |-> "nested_row_after_empty", bad |-> <<"gridf: [[int...]...] = [[], [\"x\"]]" \o M>>, good |-> <<"gridf: [[int...]...] = [[], [1]]">>],
  [name |-> "nested_row_str_in_third", bad |-> <<"gridf: [[int...]...] = [[1], [2], [\"x\"]]" \o M>>, good |-> <<"gridf: [[int...]...] = [[1], [2], [3]]">>],
  [name |-> "nested_arg_row", bad |-> <<"takeg = fn(g: [[int...]...]) -> int { return g.len() }", "flt = takeg([[], [\"x\"]])" \o M>>,
                              good |-> <<"takeg = fn(g: [[int...]...]) -> int { return g.len() }", "flt = takeg([[], [1]])">>],
  [name |-> "reassign_open_list_literal", bad |-> <<"scf: [int...] = [10]", "scf = [\"ten\", \"twenty\"]" \o M>>,
                                          good |-> <<"scf: [int...] = [10]", "scg: [int...] = [1, 2]", "scf = scg">>],
  [name |-> "reassign_open_list_other", bad |-> <<"scf: [int...] = [10]", "sch: [str...] = [\"a\"]", "scf = sch" \o M>>,
                                        good |-> <<"scf: [int...] = [10]", "scg: [int...] = [1, 2]", "scf = scg">>],
  [name |-> "modify_open_list_literal", bad |-> <<"quf: [int...] = [1]", "clo = fn() { modify quf = [true, false] }" \o M, "clo()">>,
                                        good |-> <<"quf: [int...] = [1]", "qug: [int...] = [2]", "clo = fn() { modify quf = qug }", "clo()">>],
  \* `modify` writes a variable that the enclosing function captured: outside of any function, or on a variable of the
  \* function itself, there is nothing to modify - also when the statement sits in a block
  [name |-> "modify_own_in_block", bad |-> <<"tot = 10", "if tot == 10 {", "	modify tot = 11" \o M, "}">>, good |-> <<"tot = 10", "if tot == 10 {", "	tot = 11", "}">>],
  [name |-> "modify_own_in_loop", bad |-> <<"tot = 10", "while tot == 10 {", "	modify tot = 11" \o M, "}">>, good |-> <<"tot = 10", "while tot == 10 {", "	tot = 11", "}">>],
  [name |-> "modify_mismatch", bad |-> <<"tot = 10", "clo = fn() { modify tot = \"ten\" }" \o M, "clo()">>,
                               good |-> <<"tot = 10", "clo = fn() { modify tot = 11 }", "clo()">>] }
OpCases == {[kind |-> "op", op |-> o, l |-> l, r |-> r, ctx |-> c] :
              o \in {"-", "+", "&&", "<"}, l \in Types \ {"int?", "str?"}, r \in Types \ {"int?", "str?"}, c \in {"module", "fn"}}

(* two modules each declare a class of the same name: a value of one is not a value of the other *)
\* (the foreign Pt has a member of the same name as the local Pt, of another type)
XLib == <<"export class Pt {", "	q: str", "	constructor(self, q: str) {", "		self.q = q", "	}", "}",
          \* a class that is *not* exported, declared after an exported one
          "class Hidden {", "	z: int", "	constructor(self) {", "		self.z = 1", "	}", "}",
          "const hidden_k: int = 3",          \* a constant that is not exported
          "export mkpt: fn() -> Pt = fn() -> Pt { return Pt(\"o\") }",
          \* an optional export keeps its `?` whichever way it is imported
          "export tries: int? = nil", "export lim: int = 4">>
XSites == {"arg", "init", "reassign", "ret", "field", "hidden_member", "hidden_import", "hidden_const_member", "hidden_const_import",
           "opt_import_init", "opt_member_init", "opt_import_arg", "opt_member_arg"}
XLines(site, bad) ==
    LET v == IF bad THEN "lib.mkpt()" ELSE "Pt(2)" IN
    CASE site = "arg" -> <<"taker = fn(p: Pt) -> int { return p.q }", "flt = taker(" \o v \o ")" \o (IF bad THEN M ELSE "")>>
      [] site = "init" -> <<"flt: Pt = " \o v \o (IF bad THEN M ELSE "")>>
      [] site = "reassign" -> <<"re = Pt(1)", "re = " \o v \o (IF bad THEN M ELSE "")>>
      [] site = "ret" -> <<"flt = fn() -> Pt { return " \o v \o " }" \o (IF bad THEN M ELSE "")>>
      [] site = "hidden_member" -> IF bad THEN <<"flt = lib.Hidden()" \o M>> ELSE <<"flt = lib.Pt(\"n\")">>
      [] site = "hidden_import" -> IF bad THEN <<"import Hidden from lib" \o M>> ELSE <<"import mkpt from lib">>
      [] site = "hidden_const_member" -> IF bad THEN <<"flt = lib.hidden_k" \o M>> ELSE <<"flt = lib.mkpt">>
      [] site = "hidden_const_import" -> IF bad THEN <<"import hidden_k from lib" \o M>> ELSE <<"import mkpt from lib">>
      [] site = "opt_import_init" -> IF bad THEN <<"import tries from lib", "flt: int = tries" \o M>> ELSE <<"import lim from lib", "flt: int = lim">>
      [] site = "opt_member_init" -> IF bad THEN <<"flt: int = lib.tries" \o M>> ELSE <<"flt: int = lib.lim">>
      [] site = "opt_import_arg" -> <<"taker2 = fn(p: int) -> int { return p }"
                                      >> \o (IF bad THEN <<"import tries from lib", "flt = taker2(tries)" \o M>> ELSE <<"import lim from lib", "flt = taker2(lim)">>)
      [] site = "opt_member_arg" -> <<"taker2 = fn(p: int) -> int { return p }", "flt = taker2(lib." \o (IF bad THEN "tries)" \o M ELSE "lim)")>>
      [] site = "field" -> <<"class Holder {", "	p: Pt", "	constructor(self) {", "		self.p = Pt(1)", "	}", "}", "hd = Holder()", "hd.p = " \o v \o (IF bad THEN M ELSE "")>>

VARIABLE x
Init == x \in {y \in TypedCases : TypedValid(y)}
           \cup ({[kind |-> "xmod", site |-> st, ctx |-> c] : st \in XSites, c \in {"module", "fn"}}
                 \ {[kind |-> "xmod", site |-> st, ctx |-> "fn"] : st \in {"hidden_import", "hidden_const_import", "opt_import_init", "opt_import_arg"}})
           \cup {[kind |-> "fixed", f |-> f, ctx |-> c] : f \in Fixed, c \in Contexts}
           \cup {y \in OpCases : OpUnsupported(y.op, y.l, y.r)}
Next == UNCHANGED x

Prologue == <<"class Box {", "	v: int", "	constructor(self) {", "		self.v = 1", "	}",
              "	fn val(self) -> int {", "		return self.v", "	}",
              "	fn add(self, n: int) -> int {", "		return self.v + n", "	}", "}",
              "class Pt {", "	q: int", "	constructor(self, q: int) {", "		self.q = q", "	}", "}",
              "ilist: [int...] = [1, 2]", "ifn = fn() -> int { return 1 }", "iopt: int? = 4", "sopt: str? = \"o\"", "bopt: bool? = true">>
Indent(ls) == [k \in 1..Len(ls) |-> "	" \o ls[k]]
Wrap(ctx, ls) ==
    CASE ctx \in {"module", "lib"} -> ls
      [] ctx = "fn" -> <<"wrap = fn() -> int {">> \o Indent(ls) \o <<"	return 0", "}", "wrap()">>
      [] ctx = "method" -> <<"class W {", "	fn go(self) -> int {">> \o Indent(Indent(ls)) \o <<"		return 0", "	}", "}", "wobj = W()", "wobj.go()">>
      [] ctx = "dead_ret" -> <<"wrap = fn() -> int {", "	return 0">> \o Indent(ls) \o <<"}", "wrap()">>
      [] ctx = "dead_break" -> <<"while true {", "	break">> \o Indent(ls) \o <<"}">>
      [] ctx = "dead_cont" -> <<"from 0 to 2 {", "	continue">> \o Indent(ls) \o <<"}">>
      [] ctx = "elif" -> <<"one = 1", "if one == 2 {", "	one = 3", "} else if one == 1 {">> \o Indent(ls) \o <<"}">>
Lines(bad) ==
    CASE x.kind = "typed" -> SiteLines(x.site, x.T, Sample(IF bad THEN x.S ELSE x.T))
      [] x.kind = "fixed" -> IF bad THEN x.f.bad ELSE x.f.good
      [] x.kind = "xmod" -> XLines(x.site, bad)
      [] x.kind = "op" -> IF bad THEN <<"flt = " \o Sample(x.l) \o " " \o x.op \o " " \o Sample(x.r) \o M>>
                          ELSE <<"flt = 1 " \o (IF x.op = "&&" THEN "<" ELSE x.op) \o " 2">>
Files(bad) ==
    IF x.ctx = "lib"
    THEN [main |-> <<"print \"START\"", "import lib", "print \"END\"">>, lib |-> Prologue \o Wrap("lib", Lines(bad))]
    ELSE IF x.kind = "xmod"
    THEN [main |-> <<"print \"START\"", "import lib">> \o Prologue \o Wrap(x.ctx, Lines(bad)) \o <<"print \"END\"">>, lib |-> XLib]
    ELSE [main |-> <<"print \"START\"">> \o Prologue \o Wrap(x.ctx, Lines(bad)) \o <<"print \"END\"">>, lib |-> <<>>]
Id == CASE x.kind = "typed" -> x.site \o ":" \o x.T \o "<-" \o x.S \o "@" \o x.ctx
        [] x.kind = "fixed" -> x.f.name \o "@" \o x.ctx
        [] x.kind = "xmod" -> "xmod:" \o x.site \o "@" \o x.ctx
        [] x.kind = "op" -> "op:" \o x.l \o x.op \o x.r \o "@" \o x.ctx
EmitCase == PrintT("CASE " \o ToJson([id |-> Id, kind |-> x.kind, ctx |-> x.ctx, fault_file |-> IF x.ctx = "lib" THEN "lib" ELSE "main",
                                       bad |-> Files(TRUE), good |-> Files(FALSE)]))
=============================================================================
