CONSTANTS
  TopNames <- TNQuick
  ChildNames <- CN
  MaxEntries = 2
INIT Init
NEXT Next
INVARIANT C20
INVARIANT EmitCase
