-------------------------------- MODULE GenObj --------------------------------
(* Generator for C08: histories of constructions, method calls, field reads and  *)
(* writes and aliasings over three object variables (x, y: distinct Counters,    *)
(* z: alias of x), a Pair that holds Counters in fields (one optional) and a list *)
(* of Counters.  After every operation every object is observed through every     *)
(* variable, together with `is` between all pairs.                                *)
EXTENDS Ast, TLC, Json, IOUtils

CONSTANT MaxLen

OV == {"x", "y", "z"}
Ops == [op : {"new", "inc", "add", "total", "twice", "readn", "writen", "opn", "pushitems", "bumpvia", "setb", "inlist", "unwrap_reassign",
              "label", "tagop", "subn", "divn", "dec", "fork_inc"}, v : OV]
       \cup [op : {"alias", "fork", "me", "is", "adopt", "read_op_inc", "share", "pick_inc"}, v : OV, w : OV]
       \cup [op : {"pair_bump_a", "pair_read_b", "pair_b_inc", "outside", "finc", "ftotal", "fnew", "ffork", "localclass", "localclass2", "swapnew", "linkcut", "linkrelink", "linkbump", "linkcutlist"}]

VARIABLE hist
Init == hist = <<>>
Next == Len(hist) < MaxLen /\ \E o \in Ops : hist' = Append(hist, o)

Field(n, ty) == [n |-> n, ty |-> ty]
Method(n, ps, rt, b) == [n |-> n, ps |-> ps, rt |-> rt, b |-> b]
SelfF(n) == Fld(Self, n)
SetSelf(n, e) == Assign(Fld(Self, n), "=", e)

Counter ==
    [k |-> "class", n |-> "Counter", export |-> FALSE,
     fields |-> <<Field("n", "int"), Field("items", "[int...]"), Field("tag", "str")>>,
     ctor |-> <<[ps |-> <<P("start", "int")>>, b |-> <<SetSelf("n", V("start")), SetSelf("items", List(<<>>)), SetSelf("tag", S("t")),
                                                      Modify("made", Bin("+", V("made"), I(1)))>>]>>,
     methods |-> <<Method("inc", <<>>, "int", <<Assign(Fld(Self, "n"), "+", I(1)), Ret(SelfF("n"))>>),
                   Method("add", <<P("v", "int")>>, "", <<ExprS(MCall(SelfF("items"), "push", <<V("v")>>))>>),
                   Method("total", <<>>, "int", <<Ret(Bin("+", SelfF("n"), MCall(SelfF("items"), "len", <<>>)))>>),
                   Method("twice", <<>>, "int", <<ExprS(MCall(Self, "inc", <<>>)), Ret(MCall(Self, "inc", <<>>))>>),
                   Method("fork", <<>>, "Self", <<Ret(New("Self", <<SelfF("n")>>))>>),
                   Method("me", <<>>, "Self", <<Ret(Self)>>),
                   Method("pick", <<P("other", "Self")>>, "Self", <<Ret(V("other"))>>),
                   Method("dec", <<>>, "int", <<Assign(Fld(Self, "n"), "-", I(1)), Ret(SelfF("n"))>>),
                   Method("adopt", <<P("other", "Self")>>, "int", <<SetSelf("n", Bin("+", SelfF("n"), Fld(V("other"), "n"))),
                                                                     Assign(Fld(V("other"), "n"), "=", I(0)), Ret(SelfF("n"))>>),
                   Method("outside", <<>>, "int", <<Ret(Bin("+", V("made"), SelfF("n")))>>),
                   \* a non-commutative op-assignment on a field, inside a method
                   Method("label", <<P("s", "str")>>, "str", <<Assign(Fld(Self, "tag"), "+", V("s")), Ret(SelfF("tag"))>>),
                   \* share the other object's list (the two lists may be equal in content at that moment)
                   Method("share", <<P("other", "Self")>>, "", <<SetSelf("items", Fld(V("other"), "items"))>>),
                   \* a field read whose right neighbour writes the field: left to right, the read comes first
                   Method("bumpsum", <<>>, "int", <<Ret(Bin("+", SelfF("n"), MCall(Self, "inc", <<>>)))>>)>>]
(* a second module with its own, different class of the same name *)
LibCounter ==
    [k |-> "class", n |-> "Counter", export |-> TRUE,
     fields |-> <<Field("n", "int")>>,
     ctor |-> <<[ps |-> <<P("start", "int")>>, b |-> <<SetSelf("n", V("start"))>>]>>,
     methods |-> <<Method("inc", <<>>, "int", <<SetSelf("n", Bin("*", SelfF("n"), I(2))), Ret(SelfF("n"))>>),
                   Method("total", <<>>, "int", <<Ret(Bin("-", SelfF("n"), I(1)))>>),
                   \* `Self(..)` inside a method of an imported class is that class, whatever the importer calls `Counter`
                   Method("fork", <<>>, "Self", <<Ret(New("Self", <<Bin("+", SelfF("n"), I(100))>>))>>)>>]
LibBody == <<LibCounter,
             [k |-> "let", n |-> "mk", ty |-> "fn(int) -> Counter", mod |-> FALSE, const |-> FALSE, export |-> TRUE,
              e |-> Fn("mk", <<P("s", "int")>>, "Counter", <<Ret(New("Counter", <<V("s")>>))>>)]>>
Pair ==
    [k |-> "class", n |-> "Pair", export |-> FALSE,
     fields |-> <<Field("a", "Counter"), Field("b", "Counter?")>>,
     ctor |-> <<[ps |-> <<P("a", "Counter")>>, b |-> <<SetSelf("a", V("a")), SetSelf("b", Nil)>>]>>,
     methods |-> <<Method("set_b", <<P("c", "Counter")>>, "", <<SetSelf("b", V("c"))>>),
                   Method("bump_a", <<>>, "int", <<Ret(MCall(SelfF("a"), "inc", <<>>))>>),
                   Method("has_b", <<>>, "bool", <<Ret(Bin("!=", SelfF("b"), Nil))>>)>>]

(* a class whose constructor parameters and locals are named like its fields, and are used crosswise and after the fields were *)
(* set: parameters and locals of the constructor are variables of the constructor, the fields are reached through `self`       *)
Swap ==
    [k |-> "class", n |-> "Swap", export |-> FALSE,
     fields |-> <<Field("first", "int"), Field("second", "int"), Field("steps", "int")>>,
     ctor |-> <<[ps |-> <<P("first", "int"), P("second", "int")>>,
                 b |-> <<SetSelf("first", V("second")), SetSelf("second", V("first")),
                         Let("steps", Bin("+", V("first"), I(100))), SetSelf("steps", V("steps")),
                         Let("first", Bin("+", V("first"), I(1000))), Let("steps", Bin("+", V("steps"), V("first")))>>]>>,
     methods |-> <<Method("sum", <<>>, "int", <<Ret(Bin("+", Bin("*", SelfF("first"), I(100)), Bin("+", SelfF("second"), SelfF("steps"))))>>)>>]

(* a linked structure: objects that hold objects.  Cutting a link (writing nil over a slot that holds an object) changes that *)
(* slot and nothing else: the object that was linked keeps its own links, whoever else still refers to it                    *)
Link ==
    [k |-> "class", n |-> "Link", export |-> FALSE,
     fields |-> <<Field("v", "int"), Field("next", "Self?")>>,
     ctor |-> <<[ps |-> <<P("v0", "int")>>, b |-> <<SetSelf("v", V("v0")), SetSelf("next", Nil)>>]>>,
     methods |-> <<Method("tail_v", <<>>, "int", <<If(Bin("==", SelfF("next"), Nil), <<Ret(SelfF("v"))>>), Ret(MCall(Get(SelfF("next")), "tail_v", <<>>))>>)>>]

(* a function that declares its own class and returns a fresh instance's state: it can be called any number of times *)
LocalClassFn ==
    Let("lcf", Fn("lcf", <<P("s", "int")>>, "int",
        <<[k |-> "class", n |-> "Local", export |-> FALSE, fields |-> <<Field("q", "int")>>,
           ctor |-> <<[ps |-> <<P("q0", "int")>>, b |-> <<SetSelf("q", V("q0"))>>]>>,
           methods |-> <<Method("twice", <<>>, "int", <<Ret(Bin("*", SelfF("q"), I(2)))>>)>>],
          Let("lo", New("Local", <<V("s")>>)), Ret(MCall(V("lo"), "twice", <<>>))>>))
(* two more functions, each declaring a class of the same name `Local` with other fields and other behaviour: every function *)
(* uses its own class, whichever ran before                                                                                  *)
LocalClassFn2 ==
    Let("lcg", Fn("lcg", <<P("s", "int")>>, "int",
        <<[k |-> "class", n |-> "Local", export |-> FALSE, fields |-> <<Field("q", "int"), Field("r", "int")>>,
           ctor |-> <<[ps |-> <<P("q0", "int")>>, b |-> <<SetSelf("q", V("q0")), SetSelf("r", I(100))>>]>>,
           methods |-> <<Method("twice", <<>>, "int", <<Ret(Bin("+", SelfF("q"), SelfF("r")))>>),
                         Method("again", <<>>, "Self", <<Ret(New("Self", <<Bin("+", SelfF("q"), I(1))>>))>>)>>],
          Let("lo", New("Local", <<V("s")>>)), Let("l2", MCall(V("lo"), "again", <<>>)), Ret(MCall(V("l2"), "twice", <<>>))>>))
Prologue == <<[k |-> "import", form |-> "names", path |-> "lib", names |-> <<"mk">>], LocalClassFn, LocalClassFn2,
              Let("made", I(0)), Counter, Pair, Swap, Link,
              Let("l3", New("Link", <<I(3)>>)), Let("l2", New("Link", <<I(2)>>)), Let("l1", New("Link", <<I(1)>>)),
              Assign(Fld(V("l2"), "next"), "=", V("l3")), Assign(Fld(V("l1"), "next"), "=", V("l2")),
              LetT("lks", "[Link?...]", List(<<V("l2"), Nil>>)),
              Let("x", New("Counter", <<I(1)>>)), Let("f", Call(V("mk"), <<I(3)>>)),
              Let("y", New("Counter", <<I(2)>>)), Let("z", V("x")),
              Let("p", New("Pair", <<V("x")>>)),
              LetT("ls", "[Counter...]", List(<<V("y")>>))>>

ObsOne(v) == <<Print(Fld(V(v), "n")), Print(Fld(V(v), "items")), Print(Fld(V(v), "tag"))>>
Observe == ObsOne("x") \o ObsOne("y") \o ObsOne("z")
           \o <<Print(Bin("is", V("x"), V("y"))), Print(Bin("is", V("x"), V("z"))), Print(Bin("is", V("y"), V("z"))),
                Print(Fld(Fld(V("p"), "a"), "n")), Print(MCall(V("p"), "has_b", <<>>)),
                If(MCall(V("p"), "has_b", <<>>), <<Let("pbo", Get(Fld(V("p"), "b"))), Print(Bin("is", V("pbo"), V("x"))), Print(Bin("is", V("pbo"), V("y")))>>),
                Print(MCall(V("ls"), "len", <<>>)), Print(V("made")), Print(Fld(V("f"), "n")),
                \* identity is per object, whatever the class: the first Counter is not the first Pair / the first Link
                Print(Bin("is", V("x"), V("p"))), Print(Bin("is", V("y"), V("l1"))), Print(Bin("is", V("p"), V("l3"))),
                Print(Fld(V("l1"), "v")), Print(Bin("==", Fld(V("l1"), "next"), Nil)), Print(Fld(V("l2"), "v")), Print(Bin("==", Fld(V("l2"), "next"), Nil)),
                Print(Fld(V("l3"), "v")), Print(MCall(V("l1"), "tail_v", <<>>)), Print(MCall(V("l2"), "tail_v", <<>>))>>

Stmts(o, k) ==
    CASE o.op = "new" -> <<Let(o.v, New("Counter", <<I(10 * k)>>))>>
      [] o.op = "inc" -> <<Print(MCall(V(o.v), "inc", <<>>))>>
      [] o.op = "add" -> <<ExprS(MCall(V(o.v), "add", <<I(50 + k)>>))>>
      [] o.op = "total" -> <<Print(MCall(V(o.v), "total", <<>>))>>
      [] o.op = "twice" -> <<Print(MCall(V(o.v), "twice", <<>>))>>
      [] o.op = "readn" -> <<Print(Fld(V(o.v), "n"))>>
      [] o.op = "writen" -> <<Assign(Fld(V(o.v), "n"), "=", I(70 + k))>>
      [] o.op = "opn" -> <<Assign(Fld(V(o.v), "n"), "+", I(5))>>
      [] o.op = "pushitems" -> <<ExprS(MCall(Fld(V(o.v), "items"), "push", <<I(90 + k)>>))>>
      [] o.op = "bumpvia" -> <<Let("tmp", V(o.v)), Print(MCall(V("tmp"), "inc", <<>>))>>
      [] o.op = "setb" -> <<ExprS(MCall(V("p"), "set_b", <<V(o.v)>>))>>
      [] o.op = "inlist" -> <<ExprS(MCall(V("ls"), "push", <<V(o.v)>>)), Let("li", Bin("-", MCall(V("ls"), "len", <<>>), I(1))),
                              Let("got", Idx(V("ls"), V("li"))), Print(MCall(V("got"), "inc", <<>>))>>
      \* unwrap the optional field into a local, then re-point the local: the field must not follow
      [] o.op = "unwrap_reassign" -> LET cur == "cur" \o ToString(k) IN
                                     <<LetT(cur, "Counter?", Nil),
                                       IfElse(UnwrapInto(cur, Fld(V("p"), "b")), <<Print(S("has"))>>, <<Print(S("none"))>>),
                                       Let(cur, V(o.v))>>
      [] o.op = "alias" -> <<Let(o.v, V(o.w))>>
      [] o.op = "fork" -> <<Let(o.v, MCall(V(o.w), "fork", <<>>))>>
      [] o.op = "me" -> <<Let(o.v, MCall(V(o.w), "me", <<>>))>>
      [] o.op = "is" -> <<Print(Bin("is", V(o.v), V(o.w)))>>
      [] o.op = "adopt" -> <<Print(MCall(V(o.v), "adopt", <<V(o.w)>>))>>
      [] o.op = "pair_bump_a" -> <<Print(MCall(V("p"), "bump_a", <<>>))>>
      [] o.op = "pair_read_b" -> <<If(MCall(V("p"), "has_b", <<>>), <<Print(Fld(Get(Fld(V("p"), "b")), "n"))>>)>>
      [] o.op = "pair_b_inc" -> <<If(MCall(V("p"), "has_b", <<>>), <<Let("pb", Get(Fld(V("p"), "b"))), Print(MCall(V("pb"), "inc", <<>>))>>)>>
      [] o.op = "outside" -> <<Print(MCall(V("x"), "outside", <<>>))>>
      [] o.op = "read_op_inc" -> <<Print(Bin("-", Fld(V(o.v), "n"), MCall(V(o.w), "inc", <<>>))), Print(MCall(V(o.v), "bumpsum", <<>>))>>
      \* non-commutative op-assignments on a field
      [] o.op = "subn" -> <<Assign(Fld(V(o.v), "n"), "-", I(3))>>
      [] o.op = "divn" -> <<Assign(Fld(V(o.v), "n"), "/", I(2))>>
      [] o.op = "dec" -> <<Print(MCall(V(o.v), "dec", <<>>))>>
      \* a call chained on the result of a method that returns Self: it runs on the object returned, not on the receiver
      [] o.op = "fork_inc" -> <<Print(MCall(MCall(V(o.v), "fork", <<>>), "inc", <<>>))>>
      [] o.op = "pick_inc" -> <<Print(MCall(MCall(V(o.v), "pick", <<V(o.w)>>), "inc", <<>>))>>
      [] o.op = "label" -> <<Print(MCall(V(o.v), "label", <<S("L" \o ToString(k))>>))>>
      [] o.op = "tagop" -> <<Assign(Fld(V(o.v), "tag"), "+", S("o" \o ToString(k)))>>
      [] o.op = "share" -> <<ExprS(MCall(V(o.v), "share", <<V(o.w)>>)), Print(Bin("is", Fld(V(o.v), "items"), Fld(V(o.w), "items")))>>
      [] o.op = "ffork" -> <<Let("f", MCall(V("f"), "fork", <<>>)), Print(MCall(V("f"), "inc", <<>>)), Print(MCall(V("f"), "total", <<>>))>>
      [] o.op = "localclass2" -> <<Print(Call(V("lcg"), <<I(k)>>)), Print(Call(V("lcf"), <<I(k)>>)), Print(Call(V("lcg"), <<I(k + 1)>>))>>
      [] o.op = "localclass" -> <<Print(Call(V("lcf"), <<I(k)>>)), Print(Call(V("lcf"), <<I(k + 1)>>))>>
      [] o.op = "finc" -> <<Print(MCall(V("f"), "inc", <<>>))>>
      [] o.op = "ftotal" -> <<Print(MCall(V("f"), "total", <<>>))>>
      [] o.op = "swapnew" -> <<Let("sw", New("Swap", <<I(k), I(k + 1)>>)), Print(Fld(V("sw"), "first")), Print(Fld(V("sw"), "second")),
                               Print(Fld(V("sw"), "steps")), Print(MCall(V("sw"), "sum", <<>>))>>
      [] o.op = "linkcut" -> <<Assign(Fld(V("l1"), "next"), "=", Nil)>>
      [] o.op = "linkrelink" -> <<Assign(Fld(V("l1"), "next"), "=", V("l3"))>>
      [] o.op = "linkbump" -> <<Assign(Fld(V("l3"), "v"), "+", I(10 * k))>>
      [] o.op = "linkcutlist" -> <<Let("k0", I(0)), Assign(Idx(V("lks"), V("k0")), "=", Nil)>>
      [] o.op = "fnew" -> <<Let("f", Call(V("mk"), <<I(4 + k)>>)), Print(MCall(V("f"), "inc", <<>>))>>

RECURSIVE Steps(_, _)
Steps(h, k) == IF k > Len(h) THEN <<>> ELSE Stmts(h[k], k) \o Observe \o Steps(h, k + 1)
Body(h) == Prologue \o Observe \o Steps(h, 1) \o <<Print(S("end"))>>

EmitLight == hist # <<>> => PrintT("CASE " \o ToJson([hist |-> hist]))
Selected == ndJsonDeserialize(IOEnv.SELECT)
InitSel == \E i \in 1..Len(Selected) : hist = Selected[i].hist
Stutter == UNCHANGED hist
Project(h) == [entry |-> 1, mods |-> <<[name |-> "main", body |-> Body(h)], [name |-> "lib", body |-> LibBody]>>]
EmitCase == hist # <<>> => PrintT("CASE " \o ToJson([hist |-> hist, prog |-> Project(hist)]))
=============================================================================
