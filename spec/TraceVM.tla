------------------------------- MODULE TraceVM -------------------------------
(* Trace validation of the real interpreter against MSVM.                       *)
(* Input: IOEnv.DUMP  = the functions the interpreter loaded (hook H4),          *)
(*        IOEnv.TRACES = one record per executed program: [id, events], where    *)
(*        events are the hook-H1 records in program order:                       *)
(*          [e |-> "enter", fn, fi, fd, ad]     Function::run entered            *)
(*          [e |-> "i", fn, fi, ip, op, fd, od, ad]  instruction fetched (pre-state) *)
(*          [e |-> "fd", fd]                    frame-stack size after a return  *)
(*          [e |-> "leave", fn, ad, ok]         Function::run left (ok = FALSE on the error path) *)
(*        (fi = index of fn in DUMP, added by the harness and re-checked here).  *)
(* Every "i" event must be the instruction MSVM is at, with the logged frame     *)
(* depth equal to the model's and the logged operand depth inside the model's    *)
(* interval; the structural checks of C09 are evaluated on the *concrete* state; *)
(* the step taken must be one of MSVM!Succ.                                      *)
EXTENDS MSVM, SequencesExt

Traces == ndJsonDeserialize(IOEnv.TRACES)

VARIABLES t,     \* which trace
          l,     \* next event (1-based)
          acts   \* stack of activations [fi, base, s]
tvars == <<t, l, acts>>

Ev == Traces[t].events
More == l <= Len(Ev)
E == Ev[l]
Top == acts[Len(acts)]
ReplaceTop(a) == [acts EXCEPT ![Len(acts)] = a]

TraceInit == t \in 1..Len(Traces) /\ l = 1 /\ acts = <<>>

Enter ==
    /\ More /\ E.e = "enter"
    /\ E.ad = Len(acts) + 1
    /\ Funcs[E.fi].file \o "#" \o Funcs[E.fi].name = E.fn
    /\ IF acts = <<>> THEN E.fd = 1
       ELSE E.fd = Top.base + Len(Top.s.fr) + 1        \* callee sits directly on the caller's frames
    /\ acts' = Append(acts, [fi |-> E.fi, base |-> E.fd, s |-> Entry])
    /\ l' = l + 1 /\ t' = t

Fetch ==
    /\ More /\ E.e = "i"
    /\ acts # <<>> /\ E.ad = Len(acts)
    /\ Top.fi = E.fi /\ Top.s.st = "run" /\ Top.s.ip = E.ip
    /\ E.ip < CodeLen(E.fi) /\ Prog[E.fi][E.ip + 1].op = E.op
    /\ Top.base + Len(Top.s.fr) = E.fd
    /\ Top.s.lo <= E.od /\ E.od <= Top.s.hi
    /\ LET s1 == [Top.s EXCEPT !.lo = E.od, !.hi = E.od] IN
         /\ Violations(E.fi, s1) = {}
         /\ \E s2 \in Succ(E.fi, s1) : acts' = ReplaceTop([Top EXCEPT !.s = s2])
    /\ l' = l + 1 /\ t' = t

Returned ==
    /\ More /\ E.e = "fd"
    /\ acts # <<>> /\ Top.s.st = "ret" /\ E.fd = Top.base - 1
    /\ UNCHANGED acts /\ l' = l + 1 /\ t' = t

(* falling off the end of the code has no fetch event: the model takes the step here *)
FellOff ==
    /\ More /\ E.e = "fd"
    /\ acts # <<>> /\ Top.s.st = "run" /\ Top.s.ip = CodeLen(Top.fi)
    /\ Violations(Top.fi, Top.s) = {} /\ E.fd = Top.base - 1
    /\ acts' = ReplaceTop([Top EXCEPT !.s.st = "end"])
    /\ l' = l + 1 /\ t' = t

Leave ==
    /\ More /\ E.e = "leave"
    /\ acts # <<>> /\ E.ad = Len(acts)
    /\ E.ok => Top.s.st \in {"ret", "end"}
    /\ acts' = SubSeq(acts, 1, Len(acts) - 1)
    /\ l' = l + 1 /\ t' = t

Other ==
    /\ More /\ E.e \notin {"enter", "i", "fd", "leave"}
    /\ UNCHANGED acts /\ l' = l + 1 /\ t' = t

TraceNext == Enter \/ Fetch \/ Returned \/ FellOff \/ Leave \/ Other
TraceSpec == TraceInit /\ [][TraceNext]_tvars

Accepted == (~More /\ (acts = <<>> \/ Traces[t].partial)) => PrintT("ACCEPT " \o ToJson([t |-> t, id |-> Traces[t].id, n |-> Len(Ev)]))
Stuck == ((More \/ (acts # <<>> /\ ~Traces[t].partial)) /\ ~ENABLED TraceNext) =>
            PrintT("STUCK " \o ToJson([t |-> t, id |-> Traces[t].id, l |-> l,
                     top |-> IF acts = <<>> THEN [none |-> TRUE] ELSE [fi |-> Top.fi, base |-> Top.base, s |-> Top.s],
                     viol |-> IF More /\ E.e = "i" /\ acts # <<>> /\ Top.fi = E.fi /\ Top.s.ip = E.ip
                              THEN SetToSeq(Violations(E.fi, [Top.s EXCEPT !.lo = E.od, !.hi = E.od])) ELSE <<>>]))
=============================================================================
