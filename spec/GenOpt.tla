-------------------------------- MODULE GenOpt --------------------------------
(* Generator for C12: every combination of carrier x type x nil/present x use   *)
(* x position for the optional constructs ==nil, !=nil, get, or, ?=.             *)
EXTENDS Ast, TLC, Json

Carriers == {"var", "param", "result", "elem", "field", "indexof", "elembox", "fieldbox"}
Types == {"int", "str", "list"}
Uses == {"eqnil", "nenil", "get", "or", "orlit", "unwrap_if", "unwrap_stmt", "unwrap_print",
         "unwrap_while", "eqval", "getuse", "orchain", "unwrap_nested", "unwrap_twice", "unwrap_nested_twice", "or_closure", "or_use", "get_use", "nil_left", "unwrap_arith",
         \* `get x` as a statement of its own (a guard: the value is not used, the check still happens), and `get` on a source
         \* line behind text with multi-byte characters (the reported position counts characters)
         "get_stmt", "get_sameline"}
Positions == {"stmt", "inif", "inwhile", "infn"}

(* excluded: an int captured by a function literal is refused as a list index by the type   *)
(* checker (unrelated limitation); == between an optional list and a list literal is not   *)
(* an operation of the language                                                            *)
Valid(s) == /\ ~(s.ty = "list" /\ s.use = "or_use")      \* `==` between lists of optional provenance: see eqval
            /\ ~(s.carrier = "elem" /\ s.pos = "infn") /\ ~(s.carrier = "field" /\ s.pos = "infn")
            \* the result of a built-in (`index_of`: a *wrapped* optional at run time); its value is an int
            /\ (s.carrier \in {"indexof", "elembox", "fieldbox"} => s.ty = "int" /\ s.pos # "infn") /\ ~(s.ty = "list" /\ s.use = "eqval")
Scenarios == {s \in [carrier : Carriers, ty : Types, present : BOOLEAN, use : Uses, pos : Positions] : Valid(s)}

VARIABLE sc
Init == sc \in Scenarios
Next == UNCHANGED sc

TyText(t) == CASE t = "int" -> "int" [] t = "str" -> "str" [] t = "list" -> "[int...]"
Val(t) == CASE t = "int" -> I(5) [] t = "str" -> S("s") [] t = "list" -> List(<<I(1), I(2)>>)
Val2(t) == CASE t = "int" -> I(7) [] t = "str" -> S("t") [] t = "list" -> List(<<I(9)>>)
Opt(t) == TyText(t) \o "?"

(* the optional-valued expression and the statements that set it up *)
Setup(s) ==
    CASE s.carrier = "var" -> <<LetT("v", Opt(s.ty), IF s.present THEN Val(s.ty) ELSE Nil)>>
      [] s.carrier = "param" -> <<>>
      [] s.carrier = "result" ->
           <<Let("mk", Fn("mk", <<P("b", "bool")>>, Opt(s.ty),
                          <<Print(S("mk")), If(V("b"), <<Ret(Val(s.ty))>>), Ret(Nil)>>))>>
      [] s.carrier = "elem" -> <<LetT("xs", "[" \o Opt(s.ty) \o "...]", List(<<Nil, Val(s.ty)>>)),
                                 Let("k", I(IF s.present THEN 1 ELSE 0))>>
      [] s.carrier = "indexof" -> <<LetT("hs", "[int...]", List(<<I(7), I(5)>>))>>
      \* a *boxed* optional (the result of a built-in) stored in a list element / in a field
      [] s.carrier = "elembox" -> <<LetT("hs", "[int...]", List(<<I(7), I(5)>>)),
                                    LetT("xs", "[int?...]", List(<<MCall(V("hs"), "index_of", <<I(99)>>), MCall(V("hs"), "index_of", <<I(5)>>)>>)),
                                    Let("k", I(IF s.present THEN 1 ELSE 0))>>
      [] s.carrier = "fieldbox" ->
           <<LetT("hs", "[int...]", List(<<I(7), I(5)>>)),
             [k |-> "class", n |-> "Holder", export |-> FALSE, fields |-> <<[n |-> "f", ty |-> "int?"]>>,
              ctor |-> <<[ps |-> <<>>, b |-> <<Assign(Fld(Self, "f"), "=", Nil)>>]>>, methods |-> <<>>],
             Let("h", New("Holder", <<>>)),
             Assign(Fld(V("h"), "f"), "=", MCall(V("hs"), "index_of", <<I(IF s.present THEN 5 ELSE 99)>>))>>
      \* an optional field of an object
      [] s.carrier = "field" ->
           <<[k |-> "class", n |-> "Holder", export |-> FALSE, fields |-> <<[n |-> "f", ty |-> Opt(s.ty)]>>,
              ctor |-> <<[ps |-> <<>>, b |-> <<Assign(Fld(Self, "f"), "=", Nil)>>]>>, methods |-> <<>>],
             Let("h", New("Holder", <<>>))>>
           \o (IF s.present THEN <<Assign(Fld(V("h"), "f"), "=", Val(s.ty))>> ELSE <<>>)
E(s) == CASE s.carrier = "var" -> V("v")
          [] s.carrier = "param" -> V("p")
          [] s.carrier = "result" -> Call(V("mk"), <<B(s.present)>>)
          [] s.carrier = "elem" -> Idx(V("xs"), V("k"))
          [] s.carrier = "field" -> Fld(V("h"), "f")
          [] s.carrier = "elembox" -> Idx(V("xs"), V("k"))
          [] s.carrier = "fieldbox" -> Fld(V("h"), "f")
          [] s.carrier = "indexof" -> MCall(V("hs"), "index_of", <<I(IF s.present THEN 5 ELSE 99)>>)

DeclW(s) == LetT("w", Opt(s.ty), Nil)
Dflt(s) == Let("dflt", Fn("dflt", <<>>, TyText(s.ty), <<Print(S("dflt")), Ret(Val2(s.ty))>>))

UseStmts(s) ==
    CASE s.use = "eqnil" -> <<Print(Bin("==", E(s), Nil))>>
      [] s.use = "nenil" -> <<Print(Bin("!=", E(s), Nil))>>
      [] s.use = "get" -> <<Print(Get(E(s)))>>
      [] s.use = "get_stmt" -> <<ExprS(Get(E(s))), Print(S("guarded"))>>
      [] s.use = "get_sameline" -> <<[k |-> "if", c |-> Bin("!=", S("größe 日本"), S("x")), t |-> <<Print(Get(E(s)))>>, e |-> <<>>,
                                      haselse |-> FALSE, elif |-> FALSE, oneline |-> TRUE]>>
      [] s.use = "or" -> <<Print(Or(E(s), Call(V("dflt"), <<>>)))>>
      \* the fallback of `or` is a variable that the function literal captures and uses nowhere else;
      \* the function runs after the frame that owned the variable is gone
      [] s.use = "or_closure" ->
           <<Let("mkp", Fn("mkp", <<>>, "fn(" \o Opt(s.ty) \o ") -> " \o TyText(s.ty),
                           <<LetT("dv", TyText(s.ty), Val2(s.ty)),
                             Ret(Fn("pick", <<P("q", Opt(s.ty))>>, TyText(s.ty), <<Ret(Or(V("q"), V("dv")))>>))>>)),
             Let("pk", Call(V("mkp"), <<>>)),
             LetT("held", Opt(s.ty), E(s)),
             Print(Call(V("pk"), <<V("held")>>))>>
      \* the value of `or` / `get` is used as a plain value of the base type (operand, condition)
      [] s.use = "or_use" ->
           <<Print(CASE s.ty = "int" -> Bin("+", Or(E(s), Call(V("dflt"), <<>>)), I(1))
                     [] s.ty = "str" -> Bin("+", Or(E(s), Call(V("dflt"), <<>>)), S("!"))
                     [] s.ty = "list" -> MCall(Or(E(s), Call(V("dflt"), <<>>)), "len", <<>>)),
             If(Bin("==", Or(E(s), Call(V("dflt"), <<>>)), Val(s.ty)), <<Print(S("same"))>>)>>
      [] s.use = "get_use" ->
           <<Print(CASE s.ty = "int" -> Bin("*", Get(E(s)), I(2))
                     [] s.ty = "str" -> Bin("+", Get(E(s)), S("!"))
                     [] s.ty = "list" -> MCall(Get(E(s)), "len", <<>>))>>
      \* the variable filled by `?=` is used as a plain value of the base type inside the guarded block
      [] s.use = "unwrap_arith" ->
           <<DeclW(s), IfElse(UnwrapInto("w", E(s)),
                              <<Print(CASE s.ty = "int" -> Bin("+", V("w"), I(1))
                                        [] s.ty = "str" -> Bin("+", V("w"), S("!"))
                                        [] s.ty = "list" -> MCall(Get(V("w")), "len", <<>>))>>,
                              <<Print(S("none"))>>)>>
      \* nil written on the left of the comparison
      [] s.use = "nil_left" -> <<Print(Bin("==", Nil, E(s))), Print(Bin("!=", Nil, E(s))),
                                 If(Bin("==", Nil, E(s)), <<Print(S("empty"))>>), If(Bin("!=", Nil, E(s)), <<Print(S("full"))>>)>>
      [] s.use = "orlit" -> <<Print(Or(E(s), Val2(s.ty)))>>
      [] s.use = "orchain" -> <<Print(Or(E(s), Or(E(s), Call(V("dflt"), <<>>))))>>
      [] s.use = "unwrap_if" -> <<DeclW(s), IfElse(UnwrapInto("w", E(s)), <<Print(V("w"))>>, <<Print(S("none"))>>),
                                  Print(Bin("==", V("w"), Nil))>>
      [] s.use = "unwrap_stmt" -> <<DeclW(s), Let("ok", UnwrapInto("w", E(s))), Print(V("ok")), Print(Bin("==", V("w"), Nil))>>
      [] s.use = "unwrap_print" -> <<DeclW(s), Print(UnwrapInto("w", E(s))), Print(Bin("==", V("w"), Nil))>>
      \* the target is declared outside the block in which `?=` runs
      [] s.use = "unwrap_nested" -> <<DeclW(s), If(Bin("==", V("one"), I(1)), <<Let("ok", UnwrapInto("w", E(s))), Print(V("ok"))>>),
                                      Print(Bin("==", V("w"), Nil))>>
      \* the target holds a present value and is overwritten from inside a block (if / else-if condition and body):
      \* the store must reach the variable of the enclosing frame whether the new value is nil or not
      [] s.use = "unwrap_nested_twice" ->
           <<DeclW(s), Let("ok", UnwrapInto("w", Val2(s.ty))), Print(Bin("==", V("w"), Nil)),
             If(Bin("==", V("one"), I(1)), <<Let("ok2", UnwrapInto("w", E(s))), Print(V("ok2")), Print(Bin("==", V("w"), Nil))>>),
             Print(Bin("==", V("w"), Nil)),
             Let("ok3", UnwrapInto("w", Val2(s.ty))),
             IfElif(Bin("==", V("one"), I(2)), <<Print(S("no"))>>, IfElse(UnwrapInto("w", E(s)), <<Print(S("some"))>>, <<Print(S("none"))>>)),
             Print(Bin("==", V("w"), Nil))>>
      \* a present value followed by nil: the second ?= must overwrite the first
      [] s.use = "unwrap_twice" -> <<DeclW(s), Let("ok", UnwrapInto("w", Val2(s.ty))), Print(Bin("==", V("w"), Nil)),
                                     Let("ok2", UnwrapInto("w", E(s))), Print(V("ok2")), Print(Bin("==", V("w"), Nil))>>
      [] s.use = "unwrap_while" ->
           <<Let("cnt", I(0)),
             Let("nxt", Fn("nxt", <<>>, Opt(s.ty),
                           <<Modify("cnt", Bin("+", V("cnt"), I(1))),
                             If(Bin("<", V("cnt"), I(IF s.present THEN 3 ELSE 1)), <<Ret(Val(s.ty))>>), Ret(Nil)>>)),
             DeclW(s),
             While(UnwrapInto("w", Call(V("nxt"), <<>>)), <<Print(V("w")), Print(V("cnt"))>>),
             Print(Bin("==", V("w"), Nil))>>
      [] s.use = "eqval" -> <<Print(Bin("==", E(s), Val(s.ty))), Print(Bin("==", E(s), Val2(s.ty))),
                              Print(Bin("!=", E(s), Val(s.ty)))>>
      [] s.use = "getuse" -> <<Let("y", Get(E(s))), Print(V("y")), Print(Bin("==", V("y"), Val(s.ty)))>>

Core(s) == <<Print(S("before"))>> \o UseStmts(s) \o <<Print(S("after"))>>

Placed(s) ==
    CASE s.pos = "stmt" -> Core(s)
      [] s.pos = "inif" -> <<If(Bin("==", V("one"), I(1)), Core(s))>>
      [] s.pos = "inwhile" -> <<Let("n", I(0)), While(Bin("<", V("n"), I(1)), <<Let("n", Bin("+", V("n"), I(1)))>> \o Core(s))>>
      [] s.pos = "infn" -> <<Let("body", Fn("body", <<>>, "int", Core(s) \o <<Ret(I(0))>>)), Print(Call(V("body"), <<>>))>>

Body(s) ==
    <<Let("one", I(1)), Dflt(s)>> \o
    (IF s.carrier = "param"
     THEN <<Let("f", Fn("f", <<P("p", Opt(s.ty))>>, "int", Placed(s) \o <<Ret(I(1))>>)),
            Print(Call(V("f"), <<IF s.present THEN Val(s.ty) ELSE Nil>>))>>
     ELSE Setup(s) \o Placed(s))
    \o <<Print(S("end"))>>

EmitCase == PrintT("CASE " \o ToJson([sc |-> sc, prog |-> [body |-> Body(sc)]]))
=============================================================================
