----------------------------- MODULE CheckBuiltin -----------------------------
(* Specification of the string and number built-in methods (C14) and judge of    *)
(* observed calls.  Strings: MSStr (ASCII, character positions).  Numbers: MSNum  *)
(* (exact integers, IEEE-754 doubles by integer arithmetic).                      *)
EXTENDS MSNum, MSStr, Json, IOUtils

Cases == ndJsonDeserialize(IOEnv.CASES)
VARIABLE i
Init == i \in 1..Len(Cases)
Next == UNCHANGED i

(* JSON -> values.  numbers: [t |-> "num", kind, dec | cls/neg/m/e] *)
NumOf(j) == IF j.kind = "float" THEN VF([cls |-> j.cls, neg |-> j.neg, m |-> NatOfDec(j.m), e |-> j.e])
            ELSE VI(j.kind, IntOfDec(j.dec))
SmallInt(j) == LET z == IntOfDec(j.dec) n == IF z.mag = <<>> THEN 0 ELSE IF Len(z.mag) = 1 THEN z.mag[1] ELSE z.mag[1] + Base * z.mag[2] IN
               IF z.neg THEN 0 - n ELSE n            \* for |value| < 10^8

ROk(v) == [ok |-> TRUE, oom |-> FALSE, v |-> v]
RFail == [ok |-> FALSE, oom |-> FALSE, v |-> [t |-> "none"]]
ROom == [ok |-> FALSE, oom |-> TRUE, v |-> [t |-> "none"]]
FromS(r) == IF r.ok THEN ROk(r.v) ELSE RFail
NumV(v) == [t |-> "numv", v |-> v]
FromN(r) == IF r.ok THEN ROk(NumV(r.v)) ELSE IF r.oom THEN ROom ELSE RFail

(* ---- numbers ---- *)
TruncF(f) ==   \* integer part of a finite double, as a signed integer
    IF f.m = <<>> THEN ZZero
    ELSE IF f.e >= 0 THEN Z(f.neg, NatMul(f.m, Pow2(f.e)))
    ELSE IF 0 - f.e > 1100 THEN ZZero
    ELSE Z(f.neg, NatDivMod(f.m, Pow2(0 - f.e)).q)
HasFrac(f) == f.m # <<>> /\ f.e < 0 /\ (0 - f.e > 1100 \/ NatDivMod(f.m, Pow2(0 - f.e)).r # <<>>)
ToIntKind(k, x) ==
    IF x.kind = "float" THEN (IF x.f.cls # "fin" THEN ROom
                              ELSE LET z == TruncF(x.f) IN IF Fits(k, z) THEN ROk(NumV(VI(k, z))) ELSE RFail)
    ELSE IF Fits(k, x.z) THEN ROk(NumV(VI(k, x.z))) ELSE RFail
ToFloat(x) == IF x.kind = "float" THEN ROk(NumV(x))
              ELSE LET r == FOfInt(x.z) IN IF r.ok THEN ROk(NumV(VF(r.f))) ELSE ROom
AbsV(x) == IF x.kind = "float" THEN ROk(NumV(VF([x.f EXCEPT !.neg = FALSE])))
           ELSE LET z == Z(FALSE, x.z.mag) IN IF Fits(x.kind, z) THEN ROk(NumV(VI(x.kind, z))) ELSE RFail
RECURSIVE ZPow(_, _)
ZPow(z, n) == IF n = 0 THEN Z(FALSE, <<1>>) ELSE ZMul(z, ZPow(z, n - 1))
PowV(x, n) == IF x.kind = "float" THEN ROom
              ELSE IF n < 0 THEN RFail
              \* |z| >= 2^(b-1): if (b-1)*n > 127 the power cannot fit 128 bits (decided without computing it)
              ELSE IF NatCmp(x.z.mag, <<1>>) > 0 /\ (BitLen(x.z.mag) - 1) * n > 127 THEN RFail
              ELSE LET z == ZPow(x.z, IF NatCmp(x.z.mag, <<1>>) <= 0 THEN (IF n = 0 THEN 0 ELSE IF n % 2 = 0 THEN 2 ELSE 1) ELSE n) IN
                   IF Fits("bigint", z) THEN ROk(NumV(VI("bigint", z))) ELSE RFail
IntFloat(f, z) == LET r == FOfInt(z) IN IF r.ok THEN ROk(NumV(VF(IF r.f.m = <<>> THEN FZero(f.neg) ELSE r.f))) ELSE ROom
FloorV(f) == LET q == TruncF(f) IN IntFloat(f, IF f.neg /\ HasFrac(f) THEN ZSub(q, Z(FALSE, <<1>>)) ELSE q)
CeilV(f) == LET q == TruncF(f) IN IntFloat(f, IF ~f.neg /\ HasFrac(f) THEN ZAdd(q, Z(FALSE, <<1>>)) ELSE q)
IPartV(f) == IntFloat(f, TruncF(f))
FracTimes2GeOne(f) ==   \* |frac| >= 1/2
    f.e < 0 /\ 0 - f.e <= 1100 /\ NatCmp(NatMulSmall(NatDivMod(f.m, Pow2(0 - f.e)).r, 2), Pow2(0 - f.e)) >= 0
RoundV(f) == LET q == TruncF(f) IN
             IntFloat(f, IF FracTimes2GeOne(f) THEN (IF f.neg THEN ZSub(q, Z(FALSE, <<1>>)) ELSE ZAdd(q, Z(FALSE, <<1>>))) ELSE q)
FPartV(f) == IF ~HasFrac(f) THEN ROk(NumV(VF(FZero(f.neg))))
             ELSE IF 0 - f.e > 1100 THEN ROk(NumV(VF(f)))
             ELSE LET r == RoundRat(f.neg, NatDivMod(f.m, Pow2(0 - f.e)).r, <<1>>, f.e) IN IF r.ok THEN ROk(NumV(VF(r.f))) ELSE ROom
(* correctly rounded square root of a non-negative finite double: integer square root of m * 2^(e+2k) *)
RECURSIVE ISqrtSearch(_, _, _)
ISqrtSearch(n, lo, hi) ==      \* largest r with r*r <= n, lo <= r <= hi
    IF NatCmp(lo, hi) = 0 THEN lo
    ELSE LET mid == NatDivSmall(NatAdd(NatAdd(lo, hi), <<1>>), 2).q IN
         IF NatCmp(NatMul(mid, mid), n) <= 0 THEN ISqrtSearch(n, mid, hi) ELSE ISqrtSearch(n, lo, NatSub(mid, <<1>>))
SqrtV(x) ==
    LET c == ToFloat(x) IN
    IF ~c.ok THEN c
    ELSE LET f == c.v.v.f IN
         IF f.cls # "fin" THEN ROom
         ELSE IF f.m = <<>> THEN ROk(NumV(VF(f)))
         ELSE IF f.neg THEN ROom
         ELSE LET sh == 112 + (IF (f.e % 2) = 0 THEN 0 ELSE 1)      \* m * 2^sh with e - sh even
                  n == NatMul(f.m, Pow2(sh))
                  r == ISqrtSearch(n, <<1>>, Pow2((BitLen(n) \div 2) + 1))
                  exact == NatCmp(NatMul(r, r), n) = 0
                  \* sqrt = r (plus a sticky fraction) * 2^((e - sh)/2): round r to 53 bits with the sticky bit
                  rr == RoundRat(FALSE, IF exact THEN NatMulSmall(r, 2) ELSE NatAdd(NatMulSmall(r, 2), <<1>>), <<2>>, (f.e - sh) \div 2) IN
              IF rr.ok THEN ROk(NumV(VF(rr.f))) ELSE ROom

(* ---- string -> number parsing ---- *)
RECURSIVE RadixVal(_, _, _)
RadixVal(body, r, n) == IF n = 0 THEN <<>> ELSE NatAdd(NatMulSmall(RadixVal(body, r, n - 1), r), NatOfSmall(DigitVal(Ch(body, n))))
ParseIntKind(k, s, r) ==
    IF r < 2 \/ r > 36 THEN RFail
    ELSE LET nm == Numeral(s, r) IN
         IF ~nm.ok THEN ROk(VNone)
         ELSE LET z == Z(nm.neg, RadixVal(nm.body, r, Len(nm.body))) IN
              IF Fits(k, z) THEN ROk(NumV(VI(k, z))) ELSE ROk(VNone)
(* plain decimal floats: [sign] digits [. digits] *)
DotPos(s) == LET hits == {k \in 1..Len(s) : Ch(s, k) = "."} IN IF hits = {} THEN 0 ELSE CHOOSE k \in hits : \A j \in hits : k <= j
RECURSIVE Pow10(_)
Pow10(n) == IF n = 0 THEN <<1>> ELSE IF n >= 4 THEN ShiftLimbs(Pow10(n - 4), 1) ELSE NatMulSmall(Pow10(n - 1), 10)
ParseFloatV(s) ==
    LET signed == Len(s) >= 1 /\ Ch(s, 1) \in {"-", "+"}
        body == IF signed THEN SubSeq(s, 2, Len(s)) ELSE s
        d == DotPos(body)
        ip == IF d = 0 THEN body ELSE SubSeq(body, 1, d - 1)
        fp == IF d = 0 THEN "" ELSE SubSeq(body, d + 1, Len(body))
        digits == ip \o fp
        allDigits == \A k \in 1..Len(digits) : DigitVal(Ch(digits, k)) \in 0..9 IN
    IF Len(digits) = 0 \/ ~allDigits THEN ROom        \* other spellings (exponents, inf, nan, junk) are not modelled
    ELSE LET r == RoundRat(signed /\ Ch(s, 1) = "-", NatOfDec(digits), Pow10(Len(fp)), 0) IN
         IF r.ok THEN ROk([t |-> "numv", v |-> VF(r.f)]) ELSE ROom

Ascii(n) == CASE n = 32 -> " " [] n = 48 -> "0" [] n = 57 -> "9" [] n = 65 -> "A" [] n = 90 -> "Z" [] n = 97 -> "a"
              [] n = 122 -> "z" [] n = 126 -> "~" [] n = 33 -> "!" [] OTHER -> "?"
AsciiKnown == {32, 48, 57, 65, 90, 97, 122, 126, 33}
ByteText(z) == LET bs == NatBits(z.mag, 8)
                   RECURSIVE T(_, _)
                   T(k, started) == IF k = 0 THEN (IF started THEN "" ELSE "0")
                                    ELSE IF bs[k] = 1 THEN "1" \o T(k - 1, TRUE)
                                    ELSE (IF started THEN "0" ELSE "") \o T(k - 1, started)
               IN "0b" \o T(8, FALSE)

Arg(c, k) == c.args[k]
AInt(c, k) == SmallInt(c.args[k])
AStr(c, k) == c.args[k].s

Apply(c) ==
    LET m == c.method IN
    IF c.recv.t = "str" THEN
        LET s == c.recv.s IN
        CASE m = "len" -> FromS(StrLen(s))
          [] m = "index" -> FromS(StrIndex(s, AInt(c, 1)))
          [] m = "substring" -> FromS(Substring(s, AInt(c, 1), AInt(c, 2)))
          [] m = "contains" -> FromS(Contains(s, AStr(c, 1)))
          [] m = "index_of" -> FromS(IndexOf(s, AStr(c, 1)))
          [] m = "reverse" -> FromS(Reverse(s))
          [] m = "insert" -> FromS(Insert(s, AStr(c, 1), AInt(c, 2)))
          [] m = "replace" -> FromS(Replace(s, AStr(c, 1), AStr(c, 2)))
          [] m = "delete" -> FromS(Delete(s, AInt(c, 1), AInt(c, 2)))
          [] m = "split" -> FromS(Split(s, AInt(c, 1)))
          [] m = "chars" -> FromS(Chars(s))
          [] m = "repeat" -> FromS(Repeat(s, AInt(c, 1)))
          [] m = "concat" -> FromS(Concat(s, AStr(c, 1)))
          [] m = "parse_int" -> ParseIntKind("int", s, 10)
          [] m = "parse_bigint" -> ParseIntKind("bigint", s, 10)
          [] m = "parse_int_radix" -> ParseIntKind("int", s, AInt(c, 1))
          [] m = "parse_bigint_radix" -> ParseIntKind("bigint", s, AInt(c, 1))
          [] m = "parse_byte" -> IF Len(s) > 2 /\ SubSeq(s, 1, 2) = "0b" THEN ParseIntKind("byte", SubSeq(s, 3, Len(s)), 2)
                                 ELSE ParseIntKind("byte", s, 10)
          [] m = "parse_bool" -> ROk(IF s = "true" THEN VB(TRUE) ELSE IF s = "false" THEN VB(FALSE) ELSE VNone)
          [] m = "parse_float" -> ParseFloatV(s)
    ELSE LET x == NumOf(c.recv) IN
        CASE m = "to_int" -> ToIntKind("int", x)
          [] m = "to_bigint" -> ToIntKind("bigint", x)
          [] m = "to_byte" -> ToIntKind("byte", x)
          [] m = "to_float" -> ToFloat(x)
          [] m = "abs" -> AbsV(x)
          [] m = "pow" -> PowV(x, AInt(c, 1))
          [] m = "sqrt" -> SqrtV(x)
          [] m = "floor" -> FloorV(x.f) [] m = "ceil" -> CeilV(x.f) [] m = "round" -> RoundV(x.f)
          [] m = "ipart" -> IPartV(x.f) [] m = "fpart" -> FPartV(x.f)
          [] m = "to_str" -> IF x.kind = "float" THEN (IF x.f.cls = "fin" THEN ROk(VS(FloatText(x.f))) ELSE ROom)      \* MSNum!FloatText: the shortest round-trip decimal
                             ELSE ROk(VS(IF x.kind = "byte" THEN ByteText(x.z) ELSE DecOfInt(x.z)))
          [] m = "to_ascii" -> LET n == SmallInt(c.recv) IN IF n \in AsciiKnown THEN ROk(VS(Ascii(n))) ELSE ROom

RECURSIVE SameV(_, _)
SameV(v, j) ==
    CASE v.t = "str" -> j.t = "str" /\ j.s = v.s
      [] v.t = "bool" -> j.t = "bool" /\ j.b = v.b
      [] v.t = "int" -> j.t = "num" /\ j.kind = "int" /\ SmallInt(j) = v.n
      [] v.t = "nil" -> j.t = "nil"
      [] v.t = "list" -> j.t = "list" /\ Len(j.xs) = Len(v.xs) /\ \A k \in 1..Len(v.xs) : SameV(v.xs[k], j.xs[k])
      [] v.t = "numv" -> j.t = "num" /\ j.kind = v.v.kind /\
                         (IF v.v.kind = "float" THEN j.cls = "fin" /\ FCmp(v.v.f, NumOf(j).f) = 0 /\ (v.v.f.m = <<>> => TRUE)
                          ELSE ZCmp(v.v.z, IntOfDec(j.dec)) = 0)
RECURSIVE ShowV(_)
ShowV(v) == CASE v.t = "numv" -> (IF v.v.kind = "float" THEN [t |-> "float", neg |-> v.v.f.neg, m |-> DecOfNat(v.v.f.m), e |-> v.v.f.e]
                                  ELSE [t |-> v.v.kind, dec |-> DecOfInt(v.v.z)])
              [] v.t = "list" -> [t |-> "list", n |-> Len(v.xs)]
              [] OTHER -> v

Judge ==
    LET c == Cases[i] r == Apply(c) IN
    IF r.oom THEN PrintT("SKIP " \o ToJson([id |-> c.id]))
    ELSE IF r.ok THEN (c.obs.status = "ok" /\ SameV(r.v, c.obs.val))
                      \/ PrintT("DISAGREE " \o ToJson([id |-> c.id, expected |-> ShowV(r.v)]))
    ELSE c.obs.status = "fail" \/ PrintT("DISAGREE " \o ToJson([id |-> c.id, expected |-> [fail |-> TRUE]]))
=============================================================================
