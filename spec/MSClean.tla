------------------------------- MODULE MSClean -------------------------------
(* `mscript clean DIR` (src/main.rs clean_command) as a one-action state machine  *)
(* over an abstract directory tree, plus the generator actions that build trees. *)
(* Property C20: exactly the direct children of DIR that are files with          *)
(* extension "mmm" disappear; the reported count is their number; nothing else   *)
(* changes.                                                                       *)
EXTENDS Naturals, Sequences, FiniteSets, TLC

CONSTANTS TopNames,     \* names an entry directly inside DIR may have
          ChildNames,   \* names an entry inside a sub-directory may have
          MaxEntries    \* bound on the number of entries of a generated tree

Kinds == {"file", "dir", "lnfile", "lndir", "lndangling"}
TopKinds == Kinds
ChildKinds == {"file", "dir"}

VARIABLES tree,      \* path (non-empty sequence of names) -> kind
          tree0,     \* history: the tree `clean` was started on
          phase,     \* "building" | "cleaned"
          reported,  \* the number printed by "Removed N files"
          outside,   \* TRUE while everything outside DIR (symlink targets) is intact
          root       \* DIR itself: "dir" while the directory `clean` was pointed at exists

vars == <<tree, tree0, phase, reported, outside, root>>

-----------------------------------------------------------------------------
(* Rust's Path::extension on a single file name: the text after the last '.', *)
(* none when there is no '.' or the only '.' is the first character.           *)
Dots(name) == {i \in 1..Len(name) : SubSeq(name, i, i) = "."}
LastDot(name) == IF Dots(name) = {} THEN 0
                 ELSE CHOOSE i \in Dots(name) : \A j \in Dots(name) : j <= i
Ext(name) == LET d == LastDot(name) IN
             IF d <= 1 THEN "" ELSE SubSeq(name, d + 1, Len(name))
IsBytecodeName(name) == Ext(name) = "mmm"

Top(t) == {p \in DOMAIN t : Len(p) = 1}
Candidates(t) == {p \in Top(t) : IsBytecodeName(p[1])}
(* regular files, and symlinks to files / dangling symlinks (the link itself) *)
MustRemove(t) == {p \in Candidates(t) : t[p] \in {"file", "lnfile", "lndangling"}}
(* a symlink to a directory is "a file" or "a directory" depending on the     *)
(* reader: the specification leaves it open (either outcome is accepted)      *)
MayRemove(t) == {p \in Candidates(t) : t[p] = "lndir"}

Without(t, gone) == [p \in DOMAIN t \ gone |-> t[p]]

Clean(extra) ==
    /\ phase = "building"
    /\ extra \subseteq MayRemove(tree)
    /\ LET gone == MustRemove(tree) \cup extra IN
         /\ tree' = Without(tree, gone)
         /\ reported' = Cardinality(gone)
    /\ phase' = "cleaned"
    /\ UNCHANGED <<tree0, outside, root>>      \* DIR itself is a directory: it stays, even when it ends up empty

-----------------------------------------------------------------------------
(* generator: grow a tree one entry at a time *)
NoTree == [p \in {} |-> "file"]

AddTop(n, k) ==
    /\ phase = "building"
    /\ Cardinality(DOMAIN tree) < MaxEntries
    /\ <<n>> \notin DOMAIN tree
    /\ tree' = [p \in DOMAIN tree \cup {<<n>>} |-> IF p = <<n>> THEN k ELSE tree[p]]
    /\ tree0' = tree'
    /\ UNCHANGED <<phase, reported, outside, root>>

AddChild(d, n, k) ==
    /\ phase = "building"
    /\ Cardinality(DOMAIN tree) < MaxEntries
    /\ <<d>> \in DOMAIN tree /\ tree[<<d>>] = "dir"
    /\ <<d, n>> \notin DOMAIN tree
    /\ tree' = [p \in DOMAIN tree \cup {<<d, n>>} |-> IF p = <<d, n>> THEN k ELSE tree[p]]
    /\ tree0' = tree'
    /\ UNCHANGED <<phase, reported, outside, root>>

Init == /\ tree = NoTree /\ tree0 = NoTree /\ phase = "building"
        /\ reported = 0 /\ outside = TRUE /\ root = "dir"

Next == \/ \E n \in TopNames, k \in TopKinds : AddTop(n, k)
        \/ \E d \in TopNames, n \in ChildNames, k \in ChildKinds : AddChild(d, n, k)
        \/ \E extra \in SUBSET MayRemove(tree) : Clean(extra)

Spec == Init /\ [][Next]_vars

-----------------------------------------------------------------------------
(* C20 stated on the specification itself (checked by TLC on every state) *)
Gone == DOMAIN tree0 \ DOMAIN tree

OnlyBytecodeFilesRemoved ==
    phase = "cleaned" =>
        \A p \in Gone : Len(p) = 1 /\ IsBytecodeName(p[1]) /\ tree0[p] # "dir"
AllBytecodeFilesRemoved ==
    phase = "cleaned" =>
        \A p \in Top(tree0) : (IsBytecodeName(p[1]) /\ tree0[p] = "file") => p \in Gone
NothingElseTouched ==
    phase = "cleaned" =>
        /\ DOMAIN tree \subseteq DOMAIN tree0
        /\ \A p \in DOMAIN tree : tree[p] = tree0[p]
        /\ outside
        /\ root = "dir"
CountIsExact == phase = "cleaned" => reported = Cardinality(Gone)
SubdirectoriesUntouched ==
    phase = "cleaned" => \A p \in DOMAIN tree0 : Len(p) > 1 => p \in DOMAIN tree

C20 == /\ OnlyBytecodeFilesRemoved /\ AllBytecodeFilesRemoved /\ NothingElseTouched
       /\ CountIsExact /\ SubdirectoriesUntouched
=============================================================================
