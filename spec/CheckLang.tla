------------------------------ MODULE CheckLang ------------------------------
(* Judge for the L1 family (C01, C07, C08, C12, C13, C15, C17): each case is a  *)
(* program AST plus what the real binary did with its rendering (one record per *)
(* execution path: run, compile+execute).  TLC evaluates MSLang!Run on the AST   *)
(* and compares.  One TLC state per case.                                        *)
EXTENDS MSLang, Json, IOUtils

Cases == ndJsonDeserialize(IOEnv.CASES)

VARIABLE i
Init == i \in 1..Len(Cases)
Next == UNCHANGED i

OutOfModel(r) == r.status \in {"fuel", "type"}

(* what the specification demands of one observed execution *)
Agree(r, ob) ==
    IF r.status = "ok" THEN ob.exit = 0 /\ ob.out = r.out
    ELSE /\ ob.exit # 0
         /\ ob.out = r.out                 \* output frozen exactly at the failing statement
         /\ ob.fclass = r.status

(* properties of the specification itself, checked on every evaluated case *)
SpecSane(r) ==
    /\ r.status \in {"ok"} \cup Failures
    /\ Failed(r) => r.ftrace # <<>>

Judge ==
    LET c == Cases[i]
        r == Run(c.prog) IN
    /\ SpecSane(r)
    /\ IF OutOfModel(r) THEN PrintT("SKIP " \o ToJson([id |-> c.id, why |-> r.status]))
       ELSE \A k \in 1..Len(c.obs) :
              Agree(r, c.obs[k]) \/
              PrintT("DISAGREE " \o ToJson([id |-> c.id, path |-> c.obs[k].path,
                      exp_status |-> r.status, exp_out |-> r.out, exp_trace |-> r.ftrace,
                      obs_exit |-> c.obs[k].exit, obs_out |-> c.obs[k].out, obs_fclass |-> c.obs[k].fclass]))
=============================================================================
