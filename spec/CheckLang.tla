------------------------------ MODULE CheckLang ------------------------------
(* Judge for the L1 family (C01, C07, C08, C12, C13, C15, C17): each case is a  *)
(* program AST plus what the real binary did with its rendering (one record per *)
(* execution path: run, compile+execute).  TLC evaluates MSLang!Run on the AST   *)
(* and compares.  One TLC state per case.                                        *)
EXTENDS MSLang, Json, IOUtils

Cases == ndJsonDeserialize(IOEnv.CASES)

VARIABLE i
Init == i \in 1..Len(Cases)
Next == UNCHANGED i

OutOfModel(r) == r.status \in {"fuel", "type"}

(* a failing `get` / `assert` names the source position of that construct: right file, *)
(* right line, column inside the construct (judged when the program has exactly one)   *)
PosOk(x, ob) == x.n = 0 \/ (ob.posfile = x.file /\ ob.posline = x.line /\ x.lo <= ob.poscol /\ ob.poscol <= x.hi)

(* C17: the reported call trace lists, innermost first, exactly the active functions and   *)
(* methods down to the module.  Observed entries are [k, m, n] like the model's labels;     *)
(* block markers (k = "B") and a native-code entry (k = "N") are extra detail, not functions. *)
RECURSIVE Keep(_, _)
Keep(tr, j) == IF j > Len(tr) THEN <<>>
               ELSE (IF tr[j].k \in {"B", "N"} THEN <<>> ELSE <<tr[j]>>) \o Keep(tr, j + 1)
RECURSIVE Reverse(_)
Reverse(xs) == IF xs = <<>> THEN <<>> ELSE Append(Reverse(Tail(xs)), Head(xs))
TraceOk(model, observed) ==
    LET o == Keep(observed, 1)
        m == Reverse(model) IN        \* model stack is innermost-last, the report innermost-first
    /\ Len(o) = Len(m)
    /\ \A a \in 1..Len(m) :
          /\ o[a].k = m[a].k /\ o[a].m = m[a].m
          /\ m[a].k = "C" => o[a].n = m[a].n
          /\ \A b \in 1..Len(m) : (m[a].k = "F" /\ m[b].k = "F") =>
                ((o[a].n = o[b].n /\ o[a].m = o[b].m) <=> (m[a].n = m[b].n /\ m[a].m = m[b].m))

(* what the specification demands of one observed execution *)
Agree(c, r, ob) ==
    IF r.status = "ok" THEN ob.exit = 0 /\ ob.out = r.out
    ELSE /\ ob.exit # 0
         /\ ob.out = r.out                 \* output frozen exactly at the failing statement
         /\ ob.fclass = r.status
         /\ r.status = "nil" => PosOk(c.expect.get, ob)
         /\ r.status = "assert" => PosOk(c.expect.assert, ob)
         /\ c.judge_trace => (ob.banner /\ ob.exit = 1 /\ TraceOk(r.ftrace, ob.trace))

(* properties of the specification itself, checked on every evaluated case *)
SpecSane(r) ==
    /\ r.status \in {"ok"} \cup Failures
    /\ Failed(r) => r.ftrace # <<>>

Judge ==
    LET c == Cases[i]
        r == IF "mods" \in DOMAIN c.prog THEN RunProject(c.prog) ELSE Run(c.prog) IN
    /\ SpecSane(r)
    /\ IF OutOfModel(r) THEN PrintT("SKIP " \o ToJson([id |-> c.id, why |-> r.status]))
       ELSE \A k \in 1..Len(c.obs) :
              Agree(c, r, c.obs[k]) \/
              PrintT("DISAGREE " \o ToJson([id |-> c.id, path |-> c.obs[k].path,
                      exp_status |-> r.status, exp_out |-> r.out, exp_trace |-> r.ftrace,
                      obs_exit |-> c.obs[k].exit, obs_out |-> c.obs[k].out, obs_fclass |-> c.obs[k].fclass,
                      obs_pos |-> <<c.obs[k].posfile, c.obs[k].posline, c.obs[k].poscol>>, expect |-> c.expect,
                      obs_trace |-> c.obs[k].trace, obs_banner |-> c.obs[k].banner]))
=============================================================================
