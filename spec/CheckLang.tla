------------------------------ MODULE CheckLang ------------------------------
(* Judge for the L1 family (C01, C07, C08, C12, C13, C15, C17): each case is a  *)
(* program AST plus what the real binary did with its rendering (one record per *)
(* execution path: run, compile+execute).  TLC evaluates MSLang!Run on the AST   *)
(* and compares.  One TLC state per case.                                        *)
EXTENDS MSLang, Json, IOUtils

Cases == ndJsonDeserialize(IOEnv.CASES)

VARIABLE i
Init == i \in 1..Len(Cases)
Next == UNCHANGED i

OutOfModel(r) == r.status \in {"fuel", "type"}

(* a failing `get` / `assert` names the source position of that construct: right file, *)
(* right line, column inside the construct (judged when the program has exactly one)   *)
PosOk(x, ob) == x.n = 0 \/ (ob.posfile = "main.ms" /\ ob.posline = x.line /\ x.lo <= ob.poscol /\ ob.poscol <= x.hi)

(* what the specification demands of one observed execution *)
Agree(c, r, ob) ==
    IF r.status = "ok" THEN ob.exit = 0 /\ ob.out = r.out
    ELSE /\ ob.exit # 0
         /\ ob.out = r.out                 \* output frozen exactly at the failing statement
         /\ ob.fclass = r.status
         /\ r.status = "nil" => PosOk(c.expect.get, ob)
         /\ r.status = "assert" => PosOk(c.expect.assert, ob)

(* properties of the specification itself, checked on every evaluated case *)
SpecSane(r) ==
    /\ r.status \in {"ok"} \cup Failures
    /\ Failed(r) => r.ftrace # <<>>

Judge ==
    LET c == Cases[i]
        r == IF "mods" \in DOMAIN c.prog THEN RunProject(c.prog) ELSE Run(c.prog) IN
    /\ SpecSane(r)
    /\ IF OutOfModel(r) THEN PrintT("SKIP " \o ToJson([id |-> c.id, why |-> r.status]))
       ELSE \A k \in 1..Len(c.obs) :
              Agree(c, r, c.obs[k]) \/
              PrintT("DISAGREE " \o ToJson([id |-> c.id, path |-> c.obs[k].path,
                      exp_status |-> r.status, exp_out |-> r.out, exp_trace |-> r.ftrace,
                      obs_exit |-> c.obs[k].exit, obs_out |-> c.obs[k].out, obs_fclass |-> c.obs[k].fclass,
                      obs_pos |-> <<c.obs[k].posfile, c.obs[k].posline, c.obs[k].poscol>>, expect |-> c.expect]))
=============================================================================
