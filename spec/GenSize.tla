------------------------------- MODULE GenSize -------------------------------
(* Generator for C04 / C18: instruction arguments whose *length* matters.  A string literal of `count` copies of `unit`,      *)
(* shifted by `pad` ASCII characters, makes one `make_str` record / one text line of a few kilobytes up to beyond 64 KiB:     *)
(* the counts sit around the sizes at which readers and writers refill or bound their buffers (4 KiB, 8 KiB, 64 KiB), and    *)
(* with a unit of 2, 3 or 4 bytes and three paddings a character lies across every such byte offset.  What `run` prints for  *)
(* the program, `compile` + `execute` and raw-text + `transpile` + `execute` must print as well (CheckCodec judges the three  *)
(* observations; the bodies are expanded by the harness - ~E~ / ~J~ / ~M~ stand for a 2-, 3- and 4-byte character).          *)
EXTENDS Integers, Sequences, TLC, Json

Units == {"a", "~E~", "~J~", "~M~", "\\n", "a b", "\\\""}
Counts == {1365, 1366, 2047, 2048, 2730, 2731, 4095, 4096, 8191, 8192, 9000, 16384, 21845, 21846, 32768, 65535, 65536, 70000}
Pads == 0..2

VARIABLE c
Init == c \in [unit : Units, count : Counts, pad : Pads]
Next == UNCHANGED c
EmitCase == PrintT("CASE " \o ToJson(c))
=============================================================================
