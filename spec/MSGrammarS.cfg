CONSTANT Budget = 0
CONSTANT UseVocab = TRUE
CONSTANT MaxEdits = 3
INIT InitE
NEXT NextESim
INVARIANT EmitEdited
