INIT Init
NEXT Next
INVARIANT Verdict
