-------------------------------- MODULE MSStr --------------------------------
(* String built-ins of MScript as functions on (ASCII) strings.  Positions and *)
(* lengths count characters (= bytes for ASCII).  Every function returns       *)
(* [ok |-> TRUE, ...] or [ok |-> FALSE] (the call is outside its domain and    *)
(* must stop the program).                                                      *)
EXTENDS Integers, Sequences, TLC

SOk(v) == [ok |-> TRUE, v |-> v]
SFail == [ok |-> FALSE, v |-> [t |-> "none"]]
VS(s) == [t |-> "str", s |-> s]
VB(b) == [t |-> "bool", b |-> b]
VN(n) == [t |-> "int", n |-> n]          \* small ints (lengths, positions)
VNone == [t |-> "nil"]
VL(xs) == [t |-> "list", xs |-> xs]

Ch(s, i) == SubSeq(s, i, i)              \* 1-based
StartsAt(s, p, i) == i + Len(p) - 1 <= Len(s) /\ SubSeq(s, i, i + Len(p) - 1) = p
RECURSIVE FindFrom(_, _, _)
FindFrom(s, p, i) == IF i + Len(p) - 1 > Len(s) THEN 0 ELSE IF StartsAt(s, p, i) THEN i ELSE FindFrom(s, p, i + 1)
Find(s, p) == FindFrom(s, p, 1)          \* 1-based position of the first occurrence, 0 if none

StrLen(s) == SOk(VN(Len(s)))
StrIndex(s, i) == IF i < 0 \/ i >= Len(s) THEN SFail ELSE SOk(VS(Ch(s, i + 1)))
Substring(s, a, b) == IF a < 0 \/ b < a \/ b > Len(s) THEN SFail ELSE SOk(VS(SubSeq(s, a + 1, b)))
Contains(s, p) == SOk(VB(Find(s, p) # 0))
IndexOf(s, p) == LET k == Find(s, p) IN SOk(IF k = 0 THEN VNone ELSE VN(k - 1))
RECURSIVE Rev(_)
Rev(s) == IF s = "" THEN "" ELSE Rev(SubSeq(s, 2, Len(s))) \o Ch(s, 1)
Reverse(s) == SOk(VS(Rev(s)))
Insert(s, new, i) == IF i < 0 \/ i > Len(s) THEN SFail ELSE SOk(VS(SubSeq(s, 1, i) \o new \o SubSeq(s, i + 1, Len(s))))
RECURSIVE ReplFrom(_, _, _, _)
ReplFrom(s, p, r, i) ==                   \* p # ""
    IF i > Len(s) THEN ""
    ELSE IF StartsAt(s, p, i) THEN r \o ReplFrom(s, p, r, i + Len(p))
    ELSE Ch(s, i) \o ReplFrom(s, p, r, i + 1)
Replace(s, p, r) == SOk(VS(ReplFrom(s, p, r, 1)))
Delete(s, a, b) == IF a < 0 \/ b < a \/ b > Len(s) THEN SFail ELSE SOk(VS(SubSeq(s, 1, a) \o SubSeq(s, b + 1, Len(s))))
Split(s, i) == IF i < 0 THEN SFail            \* (negative positions are not generated: unspecified)
               ELSE IF i >= Len(s) THEN SOk(VL(<<VS(s), VS("")>>))
               ELSE SOk(VL(<<VS(SubSeq(s, 1, i)), VS(SubSeq(s, i + 1, Len(s)))>>))
Chars(s) == SOk(VL([i \in 1..Len(s) |-> VS(Ch(s, i))]))
RECURSIVE Rep(_, _)
Rep(s, n) == IF n <= 0 THEN "" ELSE s \o Rep(s, n - 1)
Repeat(s, n) == IF n < 0 THEN SFail ELSE SOk(VS(Rep(s, n)))
Concat(s, t) == SOk(VS(s \o t))

(* digits of a radix: value of a character, -1 if it is not a digit *)
DigitVal(c) ==
    CASE c = "0" -> 0 [] c = "1" -> 1 [] c = "2" -> 2 [] c = "3" -> 3 [] c = "4" -> 4 [] c = "5" -> 5 [] c = "6" -> 6
      [] c = "7" -> 7 [] c = "8" -> 8 [] c = "9" -> 9
      [] c \in {"a", "A"} -> 10 [] c \in {"b", "B"} -> 11 [] c \in {"c", "C"} -> 12 [] c \in {"d", "D"} -> 13 [] c \in {"e", "E"} -> 14 [] c \in {"f", "F"} -> 15 [] c \in {"g", "G"} -> 16 [] c \in {"h", "H"} -> 17 [] c \in {"i", "I"} -> 18 [] c \in {"j", "J"} -> 19 [] c \in {"k", "K"} -> 20 [] c \in {"l", "L"} -> 21 [] c \in {"m", "M"} -> 22 [] c \in {"n", "N"} -> 23 [] c \in {"o", "O"} -> 24 [] c \in {"p", "P"} -> 25 [] c \in {"q", "Q"} -> 26 [] c \in {"r", "R"} -> 27 [] c \in {"s", "S"} -> 28 [] c \in {"t", "T"} -> 29 [] c \in {"u", "U"} -> 30 [] c \in {"v", "V"} -> 31 [] c \in {"w", "W"} -> 32 [] c \in {"x", "X"} -> 33 [] c \in {"y", "Y"} -> 34 [] c \in {"z", "Z"} -> 35
      [] OTHER -> -1
(* [ok, neg, digits] of a text in radix r: optional sign, at least one digit, all digits < r *)
Numeral(s, r) ==
    LET signed == Len(s) >= 1 /\ Ch(s, 1) \in {"-", "+"}
        body == IF signed THEN SubSeq(s, 2, Len(s)) ELSE s IN
    [ok |-> Len(body) >= 1 /\ \A i \in 1..Len(body) : DigitVal(Ch(body, i)) >= 0 /\ DigitVal(Ch(body, i)) < r,
     neg |-> signed /\ Ch(s, 1) = "-", body |-> body]
=============================================================================
