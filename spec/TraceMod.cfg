INIT TraceInit
NEXT Step
INVARIANT Accepted
INVARIANT Stuck
INVARIANT Broken
