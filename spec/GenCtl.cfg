CONSTANT MaxDepth = 2
INIT Init
NEXT Next
INVARIANT EmitCase
