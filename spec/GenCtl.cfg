CONSTANT MaxDepth = 2
CONSTANT AllowInvalid = FALSE
INIT Init
NEXT Next
INVARIANT EmitCase
