CONSTANT MaxDepth = 3
INIT Init
NEXT Next
INVARIANT EmitCase
