------------------------------ MODULE TraceVMV ------------------------------
(* Trace validation of the real interpreter against the value machine MSVMV, and *)
(* translation validation of the real compiler against the source semantics.     *)
(*                                                                               *)
(* Input IOEnv.CASES: one record per executed program                            *)
(*   [id, prog, funcs, entry, events, exit, fclass]                              *)
(*   funcs  = the functions the interpreter loaded (hook H4) with qn = file#name *)
(*   entry  = index of the module function that was run                          *)
(*   events = hook-H1/H2 records in program order, restricted to                 *)
(*            [e |-> "i", fi, ip, op, fd, od, ad, top]  instruction fetched (pre-state; top = display of the top operand) *)
(*            [e |-> "print", kind, text]           one item written by printn   *)
(*   prog   = the program AST the code was compiled from                         *)
(*                                                                               *)
(* (1) Every "i" event must be the instruction the machine is at - same function, *)
(*     instruction pointer, opcode, operand-stack depth, frame-stack depth,        *)
(*     activation depth and value on top of the operand stack - and the machine   *)
(*     then takes its step; every "print"     *)
(*     event must be the next item the machine printed, with the same text.      *)
(*     When the events are used up the machine must have halted iff the process  *)
(*     exited with 0, and failed iff it did not.                                 *)
(* (2) At the end of an accepted trace the machine's output and outcome must be  *)
(*     what MSLang (the source-level semantics) says about `prog`: the code the  *)
(*     compiler emitted means what the program means.                            *)
EXTENDS MSVMV, Json, IOUtils

Cases == ndJsonDeserialize(IOEnv.CASES)

VARIABLES t, l, m, pc
tvars == <<t, l, m, pc>>

C == Cases[t]
Ev == C.events
More == l <= Len(Ev)
E == Ev[l]


TraceInit == t \in 1..Len(Cases) /\ l = 1 /\ m = BootF(Cases[t].funcs, Cases[t].entry) /\ pc = 0

Fetch ==
    /\ More /\ E.e = "i" /\ m.st = "run" /\ pc = Len(m.pr)
    /\ LET a == TopA(m) IN
         /\ a.fi = E.fi /\ a.ip = E.ip /\ C.funcs[a.fi].code[a.ip + 1].op = E.op
         /\ Len(a.ops) = E.od /\ Len(m.frames) = E.fd /\ Len(m.acts) = E.ad
         \* the value on top of the operand stack, as the implementation displays it (opaque kinds are not compared)
         /\ ("top" \in DOMAIN E /\ E.top # "<opaque>" /\ Len(a.ops) > 0 /\ ~HasFn(m, TopV(a), 3)) => E.top = ShowV(m, TopV(a))
    /\ m' = Step(C.funcs, m)
    /\ l' = l + 1 /\ UNCHANGED <<t, pc>>

Printed ==
    /\ More /\ E.e = "print" /\ pc < Len(m.pr)
    /\ (m.pr[pc + 1].any \/ E.text = m.pr[pc + 1].text) /\ (m.pr[pc + 1].kind # "" => E.kind \in {m.pr[pc + 1].kind, "Optional<" \o m.pr[pc + 1].kind \o ">"})   \* the machine's optionals are flat
    /\ pc' = pc + 1 /\ l' = l + 1 /\ UNCHANGED <<t, m>>

TraceNext == Fetch \/ Printed
TraceSpec == TraceInit /\ [][TraceNext]_tvars

Finished == ~More /\ pc = Len(m.pr)
Outcome == IF C.exit = 0 THEN m.st = "halt" ELSE m.st = "fail"

(* verdict lines *)
Report(tag, extra) == PrintT(tag \o " " \o ToJson([id |-> C.id, l |-> l, st |-> m.st, why |-> m.why] @@ extra))

OutOfModelVM == m.st = "oom" => Report("OOM", [x |-> 0])
Accepted == (Finished /\ m.st # "oom" /\ Outcome) => Report("ACCEPT", [n |-> Len(Ev)])
Stuck == (m.st # "oom" /\ ~ENABLED TraceNext /\ ~(Finished /\ Outcome)) =>
            Report("STUCK", [event |-> IF More THEN E ELSE [e |-> "end", exit |-> C.exit],
                             top |-> IF m.acts = <<>> THEN [none |-> TRUE]
                                     ELSE [fi |-> TopA(m).fi, ip |-> TopA(m).ip, od |-> Len(TopA(m).ops), sp |-> TopA(m).sp],
                             fd |-> Len(m.frames), ad |-> Len(m.acts), pc |-> pc, printed |-> Len(m.pr),
                             shown |-> IF m.acts = <<>> \/ TopA(m).ops = <<>> THEN "" ELSE IF HasFn(m, TopV(TopA(m)), 3) THEN "<not compared>" ELSE ShowV(m, TopV(TopA(m)))])

(* (2) compiler vs source semantics, on the machine alone *)
Xlate ==
    (Finished /\ m.st \in {"halt", "fail"} /\ C.judge_src) =>
        LET r == IF "mods" \in DOMAIN C.prog THEN RunProject(C.prog) ELSE Run(C.prog) IN
        \/ r.status \in {"fuel", "type"}
        \/ /\ r.out = m.out
           /\ (r.status = "ok") = (m.st = "halt")
           /\ (m.st = "fail" => m.why = r.status)
        \/ Report("XLATE", [src_status |-> r.status, src_out |-> r.out, vm_out |-> m.out])
=============================================================================
