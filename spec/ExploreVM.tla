------------------------------ MODULE ExploreVM ------------------------------
(* C09: explore every function of a dump over ALL branch outcomes and evaluate *)
(* the structural checks in every reachable state.  A state that violates a    *)
(* check is reported (one BAD line, with the function and instruction) and not *)
(* expanded further, so one run judges thousands of functions.                 *)
EXTENDS MSVM, SequencesExt

VARIABLES f, s
vars == <<f, s>>

Init == f \in 1..Len(Funcs) /\ s = Entry
Next == /\ Violations(f, s) = {}
        /\ s' \in Succ(f, s)
        /\ f' = f
Spec == Init /\ [][Next]_vars

Report == Violations(f, s) # {} =>
            PrintT("BAD " \o ToJson([fi |-> f, file |-> Funcs[f].file, name |-> Funcs[f].name,
                                     ip |-> s.ip, checks |-> SetToSeq(Violations(f, s)), state |-> s]))
(* first pass: how each activation can end (operand-depth interval at `ret` / at the end) *)
RetRecord == (s.st \in {"ret", "end"} /\ IOEnv.RETS = "1") =>
            PrintT("RET " \o ToJson([fi |-> f, lo |-> IF s.st = "end" THEN 0 ELSE s.lo,
                                     hi |-> IF s.st = "end" THEN 0 ELSE (IF s.hi > 1 THEN 1 ELSE s.hi)]))
(* a module body that ends normally leaves no block frame behind *)
Finished == s.st \in {"ret", "end"} => Len(s.fr) = 0
=============================================================================
