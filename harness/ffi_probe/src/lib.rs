//! Probe library for C19: foreign functions that report exactly what they were given.
use bytecode::{raise_error, BytecodePrimitive, FFIReturnValue};

fn describe(args: &[BytecodePrimitive]) -> String {
    format!("{args:?}")
}

/// returns a string describing the argument slice
#[no_mangle]
pub fn probe_echo(args: &[BytecodePrimitive]) -> FFIReturnValue {
    FFIReturnValue::Value(BytecodePrimitive::Str(describe(args)))
}

/// returns its last argument unchanged (a value of that kind comes back)
#[no_mangle]
pub fn probe_last(args: &[BytecodePrimitive]) -> FFIReturnValue {
    match args.last() {
        Some(x) => FFIReturnValue::Value(x.clone()),
        None => FFIReturnValue::NoValue,
    }
}

/// prints what it was given and returns no value
#[no_mangle]
pub fn probe_none(args: &[BytecodePrimitive]) -> FFIReturnValue {
    println!("probe_none {}", describe(args));
    FFIReturnValue::NoValue
}

/// raises an error carrying the number of arguments
#[no_mangle]
pub fn probe_fail(args: &[BytecodePrimitive]) -> FFIReturnValue {
    let message = format!("boom:{}", args.len());
    raise_error!(message)
}
